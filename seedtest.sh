#!/bin/bash
# usage: seedtest.sh <patch.diff> <prop> [<prop>...]   - applies a seeded change to /repo, runs the quick checks, reverts
set -u
patch="$1"; shift
cd /repo || exit 2
if ! git diff --quiet; then echo "/repo has uncommitted changes"; exit 2; fi
git apply "$patch" || { echo "patch does not apply"; exit 2; }
# evidence written while a seeded change is applied must never be kept
bak=$(mktemp -d); cp -r /verif/evidence "$bak/" 2>/dev/null
trap 'git -C /repo checkout -- . ; rm -rf /verif/evidence; cp -r "$bak/evidence" /verif/evidence 2>/dev/null; rm -rf "$bak"' EXIT
for p in "$@"; do
  echo "=== $p with $(basename $(dirname $patch))"
  (cd /verif && ./check "$p" quick | cut -c1-700; echo "exit=${PIPESTATUS[0]}")
done
