#!/bin/bash
# usage: tools/run_all.sh <quick|thorough> [seed]  - runs every registered check, prints one line per check
cd "$(dirname "$0")/.." || exit 2
tier=${1:-quick}; seed=${2:-20260925}
mkdir -p target/logs
for p in $(python3 -c "import json;print(' '.join(c['property_id'] for c in json.load(open('MANIFEST.json'))['checks']))"); do
  VERIF_SEED=$seed ./check $p $tier > target/logs/$p-$tier-$seed.log 2>&1; rc=$?
  echo "$p $tier seed=$seed exit=$rc $(grep -c '^VIOLATION' target/logs/$p-$tier-$seed.log) violations, $(grep -c '^KNOWN-FINDING' target/logs/$p-$tier-$seed.log) known, $(grep -c '^INCONCLUSIVE' target/logs/$p-$tier-$seed.log) inconclusive"
done
