#!/bin/bash
# usage: tools/run_some.sh <quick|thorough> <seed> <Cxx> [<Cxx> ...]
cd "$(dirname "$0")/.." || exit 2
tier=$1; seed=$2; shift 2
mkdir -p target/logs
for p in "$@"; do
  VERIF_SEED=$seed ./check $p $tier > target/logs/$p-$tier-$seed.log 2>&1; rc=$?
  echo "$p $tier seed=$seed exit=$rc $(grep -c '^VIOLATION' target/logs/$p-$tier-$seed.log) violations, $(grep -c '^KNOWN-FINDING' target/logs/$p-$tier-$seed.log) known, $(grep -c '^INCONCLUSIVE' target/logs/$p-$tier-$seed.log) inconclusive"
done
