#!/usr/bin/env python3
"""Refreshes the generated tables of DESIGN.md (fix commits, seeded changes) from known_findings.json and seeded/*/meta.json."""
import json, glob, os, re
p = '/verif/DESIGN.md'
s = open(p).read()
k = json.load(open('/verif/known_findings.json'))
rows = ["| prop | commit | rule / signature | what failed | witness |", "|---|---|---|---|---|"]
for e in k['fixed']:
    rows.append(f"| {e['property']} | `{e['commit']}` | `{e['signature'][:60]}` | {e['what'][:230]} | `{e.get('witness','')}` |")
fixed = "\n".join(rows)
rows = ["| id | change | needs | caught by |", "|---|---|---|---|"]
for d in sorted(glob.glob('/verif/seeded/*/meta.json')):
    m = json.load(open(d)); sid = os.path.basename(os.path.dirname(d))
    cb = '; '.join(f"**{a}**: {b}" for a, b in m.get('caught_by', {}).items())
    rows.append(f"| {sid} | {m['summary'][:260]} | {m['needs'][:200]} | {cb[:420]} |")
seeds = "\n".join(rows)
def put(s, name, body):
    b, e = f"<!-- BEGIN {name} -->", f"<!-- END {name} -->"
    assert b in s and e in s, name
    return s[:s.index(b) + len(b)] + "\n" + body + "\n" + s[s.index(e):]
s = put(s, "fixed-table", fixed)
s = put(s, "seed-table", seeds)
open(p, 'w').write(s)
print("fixed:", len(k['fixed']), "seeds:", len(glob.glob('/verif/seeded/*/meta.json')))
