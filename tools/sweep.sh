#!/bin/bash
# multi-seed silence sweep on the unchanged tree: ./tools/sweep.sh "<props>" "<seeds>"
cd "$(dirname "$0")/.."
for s in $2; do for p in $1; do
  out=$(VERIF_SEED=$s ./check $p quick 2>&1 | grep -v "^KNOWN-FINDING" | tail -3 | cut -c1-300 | tr '\n' ' ')
  echo "seed=$s $p: $out"
done; done
