#!/bin/bash
# Runs the repository's own test suite with the verif guard OFF and compares the passing set with
# the pinned stable baseline (/root/.vp/BASELINE.json: 377 tests).
cd /repo || exit 2
out=$(mktemp)
CARGO_NET_OFFLINE=true cargo test --workspace --no-fail-fast --offline > "$out" 2>&1
python3 - "$out" <<'PY'
import json, re, sys
text = open(sys.argv[1]).read()
base = json.load(open('/root/.vp/BASELINE.json'))
stable = set(base.get('stable_pass', []))
passed = set()
crate = None
for line in text.splitlines():
    m = re.match(r'\s*Running .*\(target/\S*deps/([a-z_]+)-[0-9a-f]+\)', line)
    if m:
        crate = m.group(1)
    m = re.match(r'test (\S+)(?: - should panic)? \.\.\. ok', line)
    if m and crate:
        passed.add(f"{crate}::{m.group(1)}")
missing = sorted(t for t in stable if t not in passed)
print(f"stable baseline: {len(stable)} tests, passing now: {len(stable) - len(missing)}")
if missing:
    print("NOT PASSING:", missing[:20])
    sys.exit(1)
sys.exit(0)
PY
rc=$?
rm -f "$out"
exit $rc
