#!/usr/bin/env python3
"""Regenerates /verif/MANIFEST.json from the table below (keeps the manifest consistent)."""
import json, subprocess

SIM = "E1 cluster simulation"
CHECKS = {
 "C01": (SIM, "4, 5/C01", "online per-task automaton over the announced event stream + execution ground truth of a fake launcher, in an in-process simulation of the real server core, worker state machines and HQ job layer under random/PCT message schedules and injected faults",
         "runtime monitor: per-task event automaton + ground-truth executions over simulated cluster histories"),
 "C02": (SIM, "4, 5/C02", "step-boundary comparison of the job layer's unfinished task set with the scheduler's task map, a bounded-progress check at quiescence after a fault-free drain with capable workers (liveness restated as bounded progress), and rest-point rules inside the hostile phase (nothing in flight, nothing executing, no scheduling requested: no ready task may wait beside an idle capable worker, no retraction may be unresolved, no idle worker may keep refusing a request its allocator could serve)",
         "runtime monitor: cross-layer set equality at every step + quiescence (bounded progress) check"),
 "C03": (SIM, "4, 5/C03", "order check of execution starts against dependency finishes over recorded histories of random DAG workloads with failures/cancels",
         "runtime monitor: happens-before check of starts vs. dependency finishes; propagation check at quiescence"),
 "C04": ("E3 allocator lab", "5/C04", "shadow ledger over every grant/release of the real ResourceAllocator on random descriptors and operation sequences with allocate-then-release probes on every reached free state (10 of the 16 shards); plus, in the cluster simulation (4 shards), the ledger of the allocations of all executions that are open at the same time on one simulated worker (rule A6: what the real WorkerState handed to the launcher, incl. the hand-over of an allocation to a backlog task); plus the launcher lab (2 shards): real `sh` processes started by the real WorkerState + HqTaskLauncher dump their environment, and HQ_RESOURCE_VALUES_* / HQ_CPUS / CUDA_VISIBLE_DEVICES must name exactly the indices the worker holds for that task (rule A7)",
         "runtime monitor: shadow ledger (conservation / exclusivity) over allocator operation sequences"),
 "C05": (SIM, "4, 5/C05", "oracle's own arithmetic over core snapshots at every step boundary (placed tasks vs. worker resources, lifetime at the placing round, multi-node sets) + independent re-statement of the cross-structure invariants",
         "runtime monitor: structural invariant + resource-sum oracle on core snapshots at quiescent points"),
 "C06": (SIM, "4, 5/C06", "ground-truth execution records per worker (fake launcher) checked for overlap, for justification by a pending ComputeTasks and for strictly increasing instance ids, incl. across simulated server restarts",
         "runtime monitor: execution-record ledger (overlap, credit per ComputeTasks, monotone instance ids)"),
 "C07": (SIM, "4, 5/C07", "reference crash counter per task driven by the on_worker_lost callbacks, compared with the core's counters at every step; expected fail/requeue outcome per loss",
         "runtime monitor: reference counter vs. core snapshot, per-loss outcome oracle"),
 "C08": (SIM, "4, 5/C08", "cancel requests through the real client_rpc_loop at random lifecycle points; events, worker-side executions and core snapshots after the cancel are checked",
         "runtime monitor: post-cancel event/execution/snapshot oracle"),
 "C09": (SIM, "4, 5/C09", "every simulation step runs under catch_unwind with a recording panic hook; any panic located in repository code is a violation; the regression corpus of all earlier panic witnesses is replayed first",
         "runtime monitor: panic observation (catch_unwind + hook) over random/PCT schedules and a witness corpus"),
 "C13": (SIM, "4, 5/C13", "recount of task states vs. counters at every step, completion event count vs. closed/terminal condition, id-set oracle per submit, and stream-client delivery at quiescence",
         "runtime monitor: bookkeeping recount + submit id-set oracle + exactly-once completion"),
 "C14": (SIM, "4, 5/C14", "failure counting per job over the announced events; abort reasons and survivors are checked at the step that crosses the limit",
         "runtime monitor: per-job failure counter automaton over announced events"),
 "C10": ("E4 journal lab", "5/C10", "every record boundary (and random byte offsets inside records) of journals written by the real server inside simulation runs is restored through the real StateRestorer into a fresh server and compared with an independent reference fold; plus simulation runs with crash/restart actions; plus the real init_hq_server restarted on its own journal (also from journals copied mid-run), a real client comparing what it sees of every unfinished job before and after",
         "fault enumeration: restore at every journal record boundary + torn tails, compared with a reference fold"),
 "C11": ("E4 journal lab", "5/C11", "id counters after restore vs. every id mentioned in the journal prefix at every cut (also on pruned journals); ids issued through the real submit/registration paths in simulation runs with chains of restarts; queue ids: random create/remove/restart chains through the real autoalloc state, journal writer, restorer and the re-adding of restored queues; server uid and job ids end to end: the real `init_hq_server` restarted 2-4 times on one journal (with/without a configured uid, from journals copied mid-run) and asked through a real client session",
         "fault enumeration: id high-water-mark oracle at every journal cut + restart chains"),
 "C12": ("E4 journal lab", "5/C12", "metamorphic comparison restore(J) vs restore(prune(J)) with the prune executed by the real journal thread (tmp file, rename, reopen) at the moments and with the live sets of real prune requests; appended records, double prune",
         "metamorphic runtime check: restore of pruned vs. unpruned journal"),
 "C15": ("E2 scheduling-round lab", "5/C15", "one real scheduling decision (create_task_batches -> MILP -> create_task_mapping through run_scheduling) per generated small cluster and ready queue, judged from the core snapshots before/after: every (dispatched lower-priority task, still ready higher-priority task) pair is tested against the statement incl. its exception; a fixed corpus of 20000 instances is judged completely in every run, its members that fail on the unchanged tree are individually listed known findings; random instances add counts and bear a verdict only for single-class shapes",
         "runtime monitor: priority-inversion oracle over snapshots of single scheduling decisions (fixed corpus + random instances)"),
 "C16": ("E3 allocator lab", "5/C16", "brute force over group subsets on the snapshot taken before each grant decides minimal/optimal group counts, spreading, feasibility and admission/grant agreement for the real allocator",
         "runtime monitor: brute-force reference oracle on every reached allocator free state"),
 "C17": ("E5 autoalloc lab", "5/C17", "the real AutoAllocState driven through its real entry points (handle_message, perform_submits, do_periodic_update) and the real scheduler worker query, against a simulated batch system with adversarial answers and a virtual limiter clock; limits checked on every snapshot, submissions on every handler call",
         "runtime monitor: invariant + call-log oracle over random autoalloc histories with a simulated batch system"),
 "C18": ("E5 autoalloc lab", "5/C18", "per-allocation automaton over snapshots, Allocation* events and the handler call log for the same histories (lifecycle-heavy mix)",
         "runtime monitor: per-allocation lifecycle automaton + worker-set ledger"),
 "C19": ("E6 stream lab", "5/C19", "the real worker-side streamer (one StreamerRef per simulated worker, several writer files per directory) is driven with random task/instance sets, chunkings and interleavings, files of crashed workers are cut at random offsets, and the directory is read back through the real OutputLog cat/export/summary with fd 1 redirected; bytes compared with the written ones per task and channel, twice (second time with renamed, reordered files); plus the launcher lab (3 shards): real processes run by the real WorkerState + HqTaskLauncher write known bytes to piped stdout/stderr, resend_stdio streams them, and the directory is read back the same way",
         "runtime monitor: byte-exact round-trip oracle over random stream directories written and read by the real code"),
 "C20": ("E7 handshake lab", "5/C20", "two real do_authentication futures joined through a man-in-the-middle that passes, replays, reflects, splices and modifies the four frames; configuration matrix and single-frame manipulations enumerated exhaustively, multi-frame manipulations sampled",
         "runtime monitor: acceptance oracle over adversarially manipulated real handshakes"),
}
LEVEL_NOTE = {
 SIM: "held on the executions produced, never 'verified'; trusted: registration/disconnect glue restated in tako::verif::SimServer, fake task launcher, FIFO-per-link transport model, HiGHS determinism for replay",
 "E3 allocator lab": "held on the operation sequences produced; the allocator is driven directly through tako::verif::AllocatorLab with well-formed requests; brute-force reference and ledger are small but trusted",
 "E2 scheduling-round lab": "only decisions whose MILP solve completed (optimal) are judged; the MILP encoding is approximate for two or more request classes (23 corpus members fail on the unchanged tree and are listed as known findings), so outside the corpus only single-class instances bear a verdict; HiGHS is deterministic for a given model, which the instance keys rely on",
 "E6 stream lab": "E6: chunks enter at StreamSender::send_data; a cut file only holds superseded instances. Launcher lab: real processes and pipes through resend_stdio, but no worker loss (no superseded instances there)",
 "E7 handshake lab": "adversary without key material; frames decoded with mirror structs of the crate-private messages",
 "E5 autoalloc lab": "the batch system is simulated (the real PBS/Slurm handlers are out of scope); demand is judged only where unambiguous; worker notifications include losses before/without a connect and duplicated losses",
 "E4 journal lab": "exhaustive over the record boundaries of the journals produced (journals themselves are sampled); reference fold is small but trusted; queue records are not produced inside E1",
}
LEVEL = {p: "exploration" for p in CHECKS}
LEVEL.update({"C10": "fault_enumeration", "C11": "fault_enumeration", "C12": "fault_enumeration"})

props = [json.loads(l) for l in open('/verif/properties.jsonl')]
hooks = subprocess.run(["git", "-C", "/repo", "log", "--format=%h %s", "--grep=^verif hooks"], capture_output=True, text=True).stdout.strip().splitlines()
checks = []
for p in props:
    pid = p["id"]
    if pid not in CHECKS:
        continue
    eng, ref, text, tech = CHECKS[pid]
    checks.append({
        "property_id": pid,
        "quick_cmd": f"./check {pid} quick",
        "thorough_cmd": f"./check {pid} thorough",
        "evidence_file": f"/verif/evidence/{pid}.json",
        "replay_cmd_template": "./check --replay {path}",
        "engine": eng,
        "level_claimed": {"category": LEVEL[pid], "text": text + ". Assurance: the property held on every execution explored (counts in the evidence file); reach comes from workload diversity, schedule control and fault injection, not enumeration.", "design_ref": "DESIGN.md §" + ref},
        "level_note": LEVEL_NOTE[eng],
        "technique": tech,
    })
NA_REASON = "monitor not built yet in this revision (planned engine in DESIGN.md §5); not claimed"
manifest = {
 "version": 1,
 "setup_cmd": "./check --build",
 "hooks": {
   "guard": "cargo feature `verif` (tako/verif; hyperqueue/verif enables it); off by default",
   "enable": "the harness crate /verif/harness depends on /repo/crates/tako and /repo/crates/hyperqueue by path with features [\"highs\", \"verif\"] and is rebuilt by every check",
   "baseline_off_cmd": "/verif/tools/baseline_off.sh",
   "source_commits": [h.split()[0] for h in hooks],
   "add_only": True,
 },
 "engines": [
   {"name": "E1 cluster simulation", "path": "/verif/harness/src/sim", "serves_properties": ["C01","C02","C03","C04","C05","C06","C07","C08","C09","C13","C14"], "kind_free_text": "in-process simulation from the real tako core/worker state machine/HQ job layer with harness-owned nondeterminism + online/offline monitors (/verif/harness/src/oracle)"},
   {"name": "E2 scheduling-round lab", "path": "/verif/harness/src/sched.rs", "serves_properties": ["C15"], "kind_free_text": "one real scheduling decision (batches, MILP, mapping) per generated cluster/ready queue, judged from core snapshots; fixed corpus + random instances"},
   {"name": "E3 allocator lab", "path": "/verif/harness/src/alloc.rs", "serves_properties": ["C04","C16"], "kind_free_text": "real ResourceAllocator under random operation sequences with shadow ledger and brute-force reference"},
   {"name": "E4 journal lab", "path": "/verif/harness/src/journal.rs", "serves_properties": ["C10","C11","C12","C03","C06","C07"], "kind_free_text": "real JournalWriter/Reader, real StateRestorer and real journal thread (prune) on journals produced by E1; every record boundary enumerated"},
   {"name": "E4b queue-id lab", "path": "/verif/harness/src/queueids.rs", "serves_properties": ["C11"], "kind_free_text": "queue create/remove/restart chains through the real autoalloc state, JournalWriter, StateRestorer and the re-adding of restored queues"},
   {"name": "E9 real-server restart lab", "path": "/verif/harness/src/realserver.rs", "serves_properties": ["C11", "C10"], "kind_free_text": "the real init_hq_server (own thread, localhost sockets, real journal thread) restarted on one journal lineage and observed through a real client session; no hook involved"},
   {"name": "E5 autoalloc lab", "path": "/verif/harness/src/autoalloc.rs", "serves_properties": ["C17","C18","C09"], "kind_free_text": "real autoalloc state machine + real scheduler query + simulated batch system (QueueHandler)"},
   {"name": "E6 stream lab", "path": "/verif/harness/src/stream.rs", "serves_properties": ["C19"], "kind_free_text": "real worker-side streamers write random stream directories, real OutputLog reads them back (fd 1 redirected)"},
   {"name": "E7 handshake lab", "path": "/verif/harness/src/auth.rs", "serves_properties": ["C20"], "kind_free_text": "real do_authentication x2 with a man-in-the-middle"},
   {"name": "E8 launcher lab", "path": "/verif/harness/src/launch.rs", "serves_properties": ["C04","C19"], "kind_free_text": "real processes run by the real WorkerState + HqTaskLauncher (real time, real pipes) behind the simulation's server side; environment vs. held allocation, streamed output read back"},
   {"name": "valgrind memcheck (auxiliary)", "path": "/verif/check", "serves_properties": ["C09"], "kind_free_text": "a few simulation runs under valgrind --error-exitcode inside ./check C09 (HiGHS C++ is called on every scheduling decision)"},
 ],
 "checks": checks,
 "not_applicable": [{"property_id": p["id"], "reason": NA_REASON} for p in props if p["id"] not in CHECKS],
 "notes": "All checks: exit 0 = held on everything explored (KNOWN-FINDING lines for entries of known_findings.json), exit 1 + VIOLATION line = unlisted violation, exit 2 + INCONCLUSIVE line = build failure / dead shard / too little observed. VERIF_SEED selects the random seed.",
}
json.dump(manifest, open('/verif/MANIFEST.json', 'w'), indent=1)
print(len(checks), "checks")
