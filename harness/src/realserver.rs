//! E9 - real-server restart lab (C11, the clauses that live in `bootstrap::start_server`).
//!
//! Every other lab that restores a journal goes through a hook that re-states the second half of
//! `start_server`. Here the real entry point of `hq server start` (`init_hq_server`) runs in its
//! own thread, with real sockets on localhost, a real journal file and the real journal thread; a
//! real client session (`get_client_session`) asks for the server info, submits jobs and stops the
//! server; then the server is started again on the same journal - with or without a configured
//! server uid, which is what `--access-file` does - and what it reports is compared with what the
//! journal lineage had before.
//!
//! Real time and real sockets: anything that does not answer in time makes the case
//! *inconclusive*; only positive observations (a different uid, a re-issued id) are violations.

use std::collections::{BTreeMap, BTreeSet};
use std::path::{Path, PathBuf};
use std::sync::mpsc;
use std::time::{Duration, Instant};

use hyperqueue::client::globalsettings::GlobalSettings;
use hyperqueue::client::output::quiet::Quiet;
use hyperqueue::client::server::client_stop_server;
use hyperqueue::client::status::Status;
use hyperqueue::server::bootstrap::{ServerConfig, get_client_session, init_hq_server};
use hyperqueue::server::event::payload::EventPayload;
use hyperqueue::transfer::connection::ClientSession;
use hyperqueue::transfer::messages::{
    AutoAllocRequest, AutoAllocResponse, CancelRequest, ForgetJobRequest, FromClientMessage, IdSelector, JobDescription, JobInfoRequest, SubmitResponse, ToClientMessage,
};
use serde::{Deserialize, Serialize};
use serde_json::json;

use crate::rng::{self, Rng};
use crate::shard::{Args, save_replay_value};
use crate::sim::conv;
use crate::sim::types::*;

#[derive(Serialize, Deserialize, Clone, Debug)]
pub enum Op {
    /// submit a closed job: `cpu` tasks a lab worker can run plus `gpu` tasks no lab worker can
    /// run (they stay waiting, so the job stays unfinished and, after a worker ran, partly finished)
    Submit { cpu: u32, gpu: u32 },
    /// open a job (takes a job id as well)
    Open,
    /// cancel + forget the newest job: the highest id disappears from the server's memory
    CancelForgetNewest,
    /// close the newest job of this start (a no-op for a closed one)
    CloseNewest,
    /// flush the journal and keep a copy of it: what a crash at this point leaves behind
    SnapshotJournal,
    /// create an allocation queue (`hq alloc add`), through the real client request
    AddQueue,
    /// remove the newest queue of this start (forced)
    RemoveNewestQueue,
    /// a real tako worker (`tako::worker::run_worker`) registers over TCP and disconnects again
    ConnectWorker,
    /// a real tako worker whose launcher completes every task at once stays connected until the
    /// server reports no unfinished task any more
    RunWorkerUntilIdle,
}

#[derive(Serialize, Deserialize, Clone, Debug)]
pub struct Start {
    /// `Some` = the server is started with an access file that fixes the uid
    pub configured_uid: Option<String>,
    pub ops: Vec<Op>,
    /// restart from the journal copy taken by the last `SnapshotJournal` of the previous start
    /// instead of the journal the stopped server left
    pub from_snapshot: bool,
}

pub fn gen_case(seed: u64) -> Vec<Start> {
    let mut rng = Rng::new(seed);
    let n = rng.range(2, 4);
    // the access file is either the same for every start or regenerated now and then
    let fixed = format!("U{:05}", rng.below(100_000));
    (0..n)
        .map(|i| {
            let configured_uid = if rng.chance(60, 100) {
                Some(if rng.chance(50, 100) { fixed.clone() } else { format!("U{:05}", rng.below(100_000)) })
            } else {
                None
            };
            let mut ops = Vec::new();
            for _ in 0..rng.range(0, 6) {
                ops.push(match rng.below(16) {
                    0..=3 => {
                        let (cpu, gpu) = *rng.pick(&[(1u32, 0u32), (1, 0), (3, 0), (2, 1), (1, 2), (0, 1)]);
                        Op::Submit { cpu, gpu }
                    }
                    4 | 5 => Op::Open,
                    6 => Op::CancelForgetNewest,
                    7 => Op::CloseNewest,
                    8 => Op::SnapshotJournal,
                    9..=11 => Op::AddQueue,
                    12 => Op::RemoveNewestQueue,
                    13 => Op::RunWorkerUntilIdle,
                    _ => Op::ConnectWorker,
                });
            }
            Start { configured_uid, ops, from_snapshot: i > 0 && rng.chance(25, 100) }
        })
        .collect()
}

#[derive(Default)]
pub struct Rep {
    pub violations: Vec<(String, String)>,
    pub inconclusive: Option<String>,
    pub cov: BTreeMap<String, u64>,
}

impl Rep {
    fn c(&mut self, k: &str, n: u64) {
        *self.cov.entry(k.to_string()).or_insert(0) += n;
    }
    fn v(&mut self, rule: &str, detail: String) {
        if !self.violations.iter().any(|x| x.0 == rule) {
            self.violations.push((rule.to_string(), detail));
        }
    }
}

fn server_config(journal: &Path, uid: Option<String>) -> ServerConfig {
    ServerConfig {
        client_host: "localhost".into(),
        worker_host: "localhost".into(),
        idle_timeout: None,
        client_port: None,
        worker_port: None,
        journal_path: Some(journal.to_path_buf()),
        journal_flush_period: Duration::from_millis(20),
        worker_secret_key: None,
        client_secret_key: None,
        server_uid: uid,
        scheduler_mip_time_limit: Duration::from_secs(5),
    }
}

struct Running {
    done: mpsc::Receiver<Result<(), String>>,
}

fn start_server(dir: &Path, journal: &Path, uid: Option<String>) -> Running {
    let (tx, rx) = mpsc::channel();
    let dir = dir.to_path_buf();
    let journal = journal.to_path_buf();
    std::thread::spawn(move || {
        let r = std::panic::catch_unwind(std::panic::AssertUnwindSafe(|| {
            let rt = tokio::runtime::Builder::new_current_thread().enable_all().build().unwrap();
            let gs = GlobalSettings::new(dir, Box::new(Quiet));
            rt.block_on(init_hq_server(&gs, server_config(&journal, uid))).map_err(|e| format!("{e:?}"))
        }));
        let _ = tx.send(match r {
            Ok(r) => r,
            Err(_) => Err("the server thread panicked".into()),
        });
    });
    Running { done: rx }
}

async fn connect(dir: &Path, srv: &Running) -> Result<ClientSession, String> {
    let t0 = Instant::now();
    loop {
        if let Ok(s) = get_client_session(dir).await {
            return Ok(s);
        }
        if let Ok(r) = srv.done.try_recv() {
            return Err(format!("the server ended before a client could connect: {r:?}"));
        }
        if t0.elapsed() > Duration::from_secs(20) {
            return Err("no client connection within 20 s".into());
        }
        tokio::time::sleep(Duration::from_millis(5)).await;
    }
}

async fn call(s: &mut ClientSession, m: FromClientMessage) -> Result<ToClientMessage, String> {
    match tokio::time::timeout(Duration::from_secs(20), s.connection().send_and_receive(m)).await {
        Ok(Ok(r)) => Ok(r),
        Ok(Err(e)) => Err(format!("request failed: {e:?}")),
        Err(_) => Err("no answer within 20 s".into()),
    }
}

#[derive(Default)]
struct Facts {
    uids: Vec<String>,
    jobs: BTreeSet<u32>,
    queues: BTreeSet<u32>,
    workers: BTreeSet<u32>,
}

/// uids of all `ServerStart` records and the job / queue / worker ids the journal mentions
fn journal_facts(path: &Path) -> Result<Facts, String> {
    let events = crate::journal::read_all(path).map_err(|e| format!("{e:?}"))?;
    let mut f = Facts::default();
    for e in &events {
        match &e.payload {
            EventPayload::ServerStart { server_uid } => f.uids.push(server_uid.clone()),
            EventPayload::Submit { job_id, .. } | EventPayload::JobOpen(job_id, _) | EventPayload::JobCompleted(job_id) | EventPayload::JobClose(job_id) => {
                f.jobs.insert(job_id.as_num());
            }
            EventPayload::AllocationQueueCreated(q, _) | EventPayload::AllocationQueueRemoved(q) => {
                f.queues.insert(*q);
            }
            EventPayload::WorkerConnected(w, _) | EventPayload::WorkerLost(w, _) => {
                f.workers.insert(w.as_num());
            }
            _ => {}
        }
    }
    Ok(f)
}

struct InstantLauncher;

impl tako::launcher::TaskLauncher for InstantLauncher {
    fn build_task(&self, ctx: tako::launcher::TaskBuildContext, _stop: tokio::sync::oneshot::Receiver<tako::launcher::StopReason>) -> tako::Result<tako::launcher::TaskLaunchData> {
        // what the HQ launcher hands to the server with the start of a task
        let context = tako::comm::serialize(&hyperqueue::worker::start::RunningTaskContext { instance_id: ctx.instance_id() }).unwrap();
        Ok(tako::launcher::TaskLaunchData::new(Box::pin(async { Ok(tako::launcher::TaskResult::Finished) }), context))
    }
}

/// What a client sees of the jobs: id -> (tasks, finished, failed, canceled, aborted, open)
type View = BTreeMap<u32, (u32, u32, u32, u32, u32, bool)>;

async fn job_view(s: &mut ClientSession) -> Result<View, String> {
    let m = FromClientMessage::JobInfo(JobInfoRequest { selector: IdSelector::All, include_running_tasks: false }, None);
    match call(s, m).await {
        Ok(ToClientMessage::JobInfoResponse(r)) => Ok(r
            .jobs
            .iter()
            .map(|j| {
                let c = &j.counters;
                (j.id.as_num(), (j.n_tasks, c.n_finished_tasks, c.n_failed_tasks, c.n_canceled_tasks, c.n_aborted_tasks, j.is_open))
            })
            .collect()),
        other => Err(format!("job info: {other:?}")),
    }
}

/// Is there a task left that a lab worker can run? (`runnable`: job -> number of such tasks)
fn work_left(v: &View, runnable: &BTreeMap<u32, u32>) -> bool {
    v.iter().any(|(j, (_, f, x, c, a, _))| c + a == 0 && f + x < runnable.get(j).copied().unwrap_or(0))
}

struct NoLauncher;

impl tako::launcher::TaskLauncher for NoLauncher {
    fn build_task(&self, _ctx: tako::launcher::TaskBuildContext, _stop: tokio::sync::oneshot::Receiver<tako::launcher::StopReason>) -> tako::Result<tako::launcher::TaskLaunchData> {
        Err(tako::Error::GenericError("the lab's workers run nothing".into()))
    }
}

pub async fn run_case(case: &[Start], tmp: &Path, id: u64) -> Rep {
    let mut rep = Rep::default();
    let base = tmp.join(format!("case-{id}"));
    let _ = std::fs::remove_dir_all(&base);
    std::fs::create_dir_all(&base).unwrap();
    let mut journal = base.join("journal-0.bin");
    let mut lineage_uid: Option<String> = None;
    let mut snapshot: Option<(PathBuf, Option<View>, BTreeMap<u32, u32>)> = None;
    // what a client saw when the journal the next start uses was complete (None = not stable)
    let mut expected_view: Option<View> = None;
    // job -> number of its tasks a lab worker can run
    let mut runnable: BTreeMap<u32, u32> = BTreeMap::new();
    macro_rules! inconclusive {
        ($e:expr) => {{
            rep.inconclusive = Some($e);
            return rep;
        }};
    }
    for (k, st) in case.iter().enumerate() {
        if k > 0 && st.from_snapshot {
            if let Some((snap, view, runnable_then)) = snapshot.take() {
                // the server "crashed" when the copy was taken: everything written later is lost
                journal = snap;
                expected_view = view;
                runnable = runnable_then;
                rep.c("restarts_from_a_journal_copy_taken_mid_run", 1);
            }
        }
        let existed = journal.exists();
        let before = if existed {
            match journal_facts(&journal) {
                Ok(f) => f,
                Err(e) => inconclusive!(format!("journal unreadable before start {k}: {e}")),
            }
        } else {
            Facts::default()
        };
        let (uids_before, jobs_before) = (&before.uids, &before.jobs);
        let dir = base.join(format!("dir-{k}"));
        std::fs::create_dir_all(&dir).unwrap();
        let srv = start_server(&dir, &journal, st.configured_uid.clone());
        let mut s = match connect(&dir, &srv).await {
            Ok(s) => s,
            Err(e) => inconclusive!(format!("start {k}: {e}")),
        };
        rep.c("server_starts", 1);
        let (uid, worker_port) = match call(&mut s, FromClientMessage::ServerInfo).await {
            Ok(ToClientMessage::ServerInfo(i)) => (i.server_uid, i.worker_port),
            other => inconclusive!(format!("start {k}: server info: {other:?}")),
        };
        if existed {
            rep.c("restarts_on_an_existing_journal", 1);
            if st.configured_uid.is_some() {
                rep.c("restarts_with_a_configured_uid", 1);
                if st.configured_uid != lineage_uid {
                    rep.c("restarts_with_a_configured_uid_that_differs_from_the_journal", 1);
                }
            }
            if let Some(l) = &lineage_uid {
                if &uid != l {
                    rep.v(
                        "I4-server-uid-changed-by-restart",
                        format!("start {k} on the journal of server {l} (configured uid: {:?}) reports server uid {uid}", st.configured_uid),
                    );
                }
            }
            if uids_before.iter().any(|u| u != &uids_before[0]) {
                rep.v("I4-journal-holds-two-server-uids", format!("before start {k} the journal's ServerStart records carry {uids_before:?}"));
            }
        } else {
            if let Some(c) = &st.configured_uid {
                if c != &uid {
                    rep.v("I4-configured-uid-ignored-on-a-fresh-start", format!("fresh start with configured uid {c} reports {uid}"));
                }
            }
            lineage_uid = Some(uid.clone());
        }
        if existed {
            if let Some(want) = expected_view.take() {
                match job_view(&mut s).await {
                    Ok(got) => {
                        rep.c("job_views_compared_after_restart", 1);
                        rep.c("jobs_compared_after_restart", want.len() as u64);
                        // completed jobs need not be kept in memory; every unfinished job has to
                        // be there as it was, and nothing else may appear
                        let live = |t: &(u32, u32, u32, u32, u32, bool)| t.5 || t.1 + t.2 + t.3 + t.4 < t.0;
                        rep.c("unfinished_jobs_compared_after_restart", want.values().filter(|t| live(t)).count() as u64);
                        rep.c("partly_finished_jobs_compared_after_restart", want.values().filter(|t| live(t) && t.1 > 0).count() as u64);
                        let missing = want.iter().any(|(j, t)| live(t) && got.get(j) != Some(t));
                        let phantom = got.iter().any(|(j, t)| want.get(j) != Some(t));
                        if missing || phantom {
                            rep.v(
                                "J5-client-view-differs-after-real-restart",
                                format!("start {k}: jobs as (tasks, finished, failed, canceled, aborted, open) before the journal was closed/copied: {want:?}; after the restart: {got:?}"),
                            );
                        }
                    }
                    Err(e) => inconclusive!(format!("start {k}: {e}")),
                }
            }
        }
        expected_view = None;
        let mut worker_seen = false;
        let mut open_ids: BTreeSet<u32> = BTreeSet::new();
        let mut submits_into: BTreeMap<u32, u32> = BTreeMap::new();
        let mut issued: Vec<u32> = Vec::new();
        let mut queues_issued: Vec<u32> = Vec::new();
        let mut workers_issued: Vec<u32> = Vec::new();
        for op in &st.ops {
            match op {
                Op::AddQueue => {
                    let m = FromClientMessage::AutoAlloc(AutoAllocRequest::AddQueue { parameters: crate::queueids::params(queues_issued.len() as u32 + k as u32), dry_run: false });
                    match call(&mut s, m).await {
                        Ok(ToClientMessage::AutoAllocResponse(AutoAllocResponse::QueueCreateResponse(hyperqueue::transfer::messages::QueueCreateResponse::Created(q)))) => {
                            queues_issued.push(q);
                            rep.c("queue_ids_issued", 1);
                        }
                        other => inconclusive!(format!("start {k}: add queue: {other:?}")),
                    }
                }
                Op::RemoveNewestQueue => {
                    let Some(q) = queues_issued.last().copied() else { continue };
                    match call(&mut s, FromClientMessage::AutoAlloc(AutoAllocRequest::RemoveQueue { queue_id: q, force: true })).await {
                        Ok(ToClientMessage::AutoAllocResponse(AutoAllocResponse::QueueRemoved(_))) => rep.c("newest_queue_removed", 1),
                        // removed twice
                        Ok(ToClientMessage::Error(_)) => {}
                        other => inconclusive!(format!("start {k}: remove queue: {other:?}")),
                    }
                }
                Op::RunWorkerUntilIdle => {
                    worker_seen = true;
                    let spec = WorkerSpec { resources: vec![ResSpec { name: "cpus".into(), kind: ResKind::Range(4) }], group: "g".into(), time_limit_s: None };
                    let mut cfg = conv::worker_configuration(&spec, 2);
                    cfg.hostname = "localhost".into();
                    let addr: std::net::SocketAddr = format!("127.0.0.1:{worker_port}").parse().unwrap();
                    let stop = std::sync::Arc::new(tokio::sync::Notify::new());
                    let r = tokio::time::timeout(Duration::from_secs(20), tako::worker::run_worker(vec![addr], cfg, None, |_, _| Box::new(InstantLauncher) as Box<dyn tako::launcher::TaskLauncher>, stop)).await;
                    let (wid, fut) = match r {
                        Ok(Ok(((wid, _), fut))) => (wid, fut),
                        Ok(Err(e)) => inconclusive!(format!("start {k}: worker registration failed: {e:?}")),
                        Err(_) => inconclusive!(format!("start {k}: worker registration took more than 20 s")),
                    };
                    workers_issued.push(wid.as_num());
                    rep.c("worker_ids_issued", 1);
                    let worker = tokio::task::spawn_local(fut);
                    let had_work = job_view(&mut s).await.map(|v| work_left(&v, &runnable)).unwrap_or(false);
                    // `hq job wait` polls / streams; here: ask until nothing is unfinished
                    let t0 = Instant::now();
                    let mut drained = false;
                    while t0.elapsed() < Duration::from_secs(20) {
                        match job_view(&mut s).await {
                            Ok(v) if !work_left(&v, &runnable) => {
                                drained = true;
                                break;
                            }
                            Ok(_) => tokio::time::sleep(Duration::from_millis(3)).await,
                            Err(e) => {
                                worker.abort();
                                inconclusive!(format!("start {k}: {e}"));
                            }
                        }
                    }
                    worker.abort();
                    if drained {
                        rep.c("real_worker_ran_until_no_task_was_left", 1);
                        if had_work {
                            rep.c("real_worker_ran_until_no_task_was_left.with_work", 1);
                        }
                    } else {
                        let v = job_view(&mut s).await;
                        if std::env::var("HQV_RS_DEBUG").is_ok() {
                            let l = call(&mut s, FromClientMessage::GetList { workers: true }).await;
                            if let Ok(ToClientMessage::GetListResponse(l)) = &l {
                                for w in &l.workers {
                                    eprintln!("worker {} ended {:?} runtime {:?} res {:?}", w.id, w.ended, w.runtime_info, w.configuration.resources);
                                }
                            }
                            let e = call(&mut s, FromClientMessage::TaskExplain(hyperqueue::transfer::messages::TaskExplainRequest { job_selector: hyperqueue::transfer::messages::SingleIdSelector::Last, task_id: 0.into() })).await;
                            eprintln!("explain: {e:?}");
                            let m = FromClientMessage::JobInfo(JobInfoRequest { selector: IdSelector::All, include_running_tasks: true }, None);
                            eprintln!("jobs: {:?}", call(&mut s, m).await);
                        }
                        inconclusive!(format!("start {k}: a real worker with an instant launcher did not drain the jobs within 20 s: {v:?}"));
                    }
                }
                Op::ConnectWorker => {
                    worker_seen = true;
                    let spec = WorkerSpec { resources: vec![ResSpec { name: "cpus".into(), kind: ResKind::Range(2) }], group: "g".into(), time_limit_s: None };
                    let mut cfg = conv::worker_configuration(&spec, 1);
                    cfg.hostname = "localhost".into();
                    let addr: std::net::SocketAddr = format!("127.0.0.1:{worker_port}").parse().unwrap();
                    let stop = std::sync::Arc::new(tokio::sync::Notify::new());
                    let r = tokio::time::timeout(Duration::from_secs(20), tako::worker::run_worker(vec![addr], cfg, None, |_, _| Box::new(NoLauncher) as Box<dyn tako::launcher::TaskLauncher>, stop)).await;
                    match r {
                        Ok(Ok(((wid, _), fut))) => {
                            workers_issued.push(wid.as_num());
                            rep.c("worker_ids_issued", 1);
                            // the worker goes away again at once (connection closed)
                            drop(fut);
                        }
                        Ok(Err(e)) => inconclusive!(format!("start {k}: worker registration failed: {e:?}")),
                        Err(_) => inconclusive!(format!("start {k}: worker registration took more than 20 s")),
                    }
                }
                Op::Submit { cpu, gpu } => {
                    let attrs = TaskAttrs { prio: 0, time_limit_s: None, crash: CrashSpec::Max(5) };
                    let one = |r: &str| ReqSpec { variants: vec![VariantSpec { n_nodes: 0, min_time_s: 0, entries: vec![EntrySpec { resource: r.into(), policy: Policy::Compact, amount: 10_000 }] }] };
                    // into the newest job if that one is open (task ids continue), else a new job
                    let target = issued.last().copied().filter(|j| open_ids.contains(j));
                    let base_id = target.map(|j| 100 * submits_into.get(&j).copied().unwrap_or(0)).unwrap_or(0);
                    let tasks: Vec<GraphTask> = (0..cpu + gpu).map(|i| GraphTask { id: base_id + i, deps: vec![], req: (i >= *cpu) as usize, attrs: attrs.clone() }).collect();
                    let spec = SubmitSpec::Graph { reqs: vec![one("cpus"), one("gpus")], tasks };
                    let m = FromClientMessage::Submit(conv::submit_request(target, None, &spec), None);
                    match call(&mut s, m).await {
                        Ok(ToClientMessage::SubmitResponse(SubmitResponse::Ok { job, server_uid })) => {
                            let id = job.info.id.as_num();
                            if let Some(t) = target {
                                rep.c("submits_into_an_open_job", 1);
                                *submits_into.entry(t).or_insert(0) += 1;
                                *runnable.entry(t).or_insert(0) += *cpu;
                                if id != t {
                                    rep.v("I1-submit-into-open-job-answered-with-another-job", format!("start {k}: submit into job {t} answered with job {id}"));
                                }
                                continue;
                            }
                            issued.push(id);
                            runnable.insert(id, *cpu);
                            rep.c("job_ids_issued", 1);
                            if server_uid != uid {
                                rep.v("I4-submit-answer-names-another-server", format!("server info says {uid}, the submit answer {server_uid}"));
                            }
                        }
                        other => inconclusive!(format!("start {k}: submit: {other:?}")),
                    }
                }
                Op::Open => {
                    let m = FromClientMessage::OpenJob(JobDescription { name: "open".into(), max_fails: None });
                    match call(&mut s, m).await {
                        Ok(ToClientMessage::OpenJobResponse(r)) => {
                            open_ids.insert(r.job_id.as_num());
                            submits_into.insert(r.job_id.as_num(), 1);
                            issued.push(r.job_id.as_num());
                            rep.c("job_ids_issued", 1);
                        }
                        other => inconclusive!(format!("start {k}: open: {other:?}")),
                    }
                }
                Op::CloseNewest => {
                    let Some(newest) = issued.last().copied() else { continue };
                    let sel = IdSelector::Specific(hyperqueue::common::arraydef::IntArray::from_id(newest));
                    match call(&mut s, FromClientMessage::CloseJob(hyperqueue::transfer::messages::CloseJobRequest { selector: sel })).await {
                        Ok(ToClientMessage::CloseJobResponse(_)) => {
                            if open_ids.remove(&newest) {
                                rep.c("open_job_closed", 1);
                            }
                        }
                        other => inconclusive!(format!("start {k}: close: {other:?}")),
                    }
                }
                Op::CancelForgetNewest => {
                    let Some(newest) = issued.last().copied() else { continue };
                    let sel = IdSelector::Specific(hyperqueue::common::arraydef::IntArray::from_id(newest));
                    match call(&mut s, FromClientMessage::Cancel(CancelRequest { selector: sel.clone(), reason: None })).await {
                        Ok(ToClientMessage::CancelJobResponse(_)) => {}
                        other => inconclusive!(format!("start {k}: cancel: {other:?}")),
                    }
                    match call(&mut s, FromClientMessage::ForgetJob(ForgetJobRequest { selector: sel, filter: vec![Status::Finished, Status::Failed, Status::Canceled] })).await {
                        Ok(ToClientMessage::ForgetJobResponse(_)) => rep.c("newest_job_canceled_and_forgotten", 1),
                        other => inconclusive!(format!("start {k}: forget: {other:?}")),
                    }
                }
                Op::SnapshotJournal => {
                    match call(&mut s, FromClientMessage::FlushJournal).await {
                        Ok(ToClientMessage::Finished) => {}
                        other => inconclusive!(format!("start {k}: flush: {other:?}")),
                    }
                    let copy = base.join(format!("journal-copy-{k}-{}.bin", issued.len()));
                    // the state is only comparable if nothing can have changed while the copy was taken
                    let v1 = job_view(&mut s).await.ok();
                    if std::fs::copy(&journal, &copy).is_ok() {
                        let v2 = job_view(&mut s).await.ok();
                        let stable = v1.is_some() && v1 == v2 && (!worker_seen || !v1.as_ref().map(|v| work_left(v, &runnable)).unwrap_or(true));
                        snapshot = Some((copy, if stable { v1 } else { None }, runnable.clone()));
                        rep.c("journal_copies_taken_mid_run", 1);
                    }
                }
            }
        }
        // ids issued by this start against everything the journal mentioned before it
        for j in &issued {
            if existed {
                rep.c("job_ids_issued_after_restart", 1);
            }
            if jobs_before.contains(j) {
                rep.v("I1-job-id-reuse", format!("start {k} issued job id {j}, which the journal it was started from already mentions ({jobs_before:?})"));
            }
        }
        for q in &queues_issued {
            if existed {
                rep.c("queue_ids_issued_after_restart", 1);
            }
            if before.queues.contains(q) {
                rep.v("I1-queue-id-reuse", format!("start {k} issued queue id {q}, which the journal it was started from already mentions ({:?})", before.queues));
            }
        }
        for w in &workers_issued {
            if existed {
                rep.c("worker_ids_issued_after_restart", 1);
            }
            if before.workers.contains(w) {
                rep.v("I1-worker-id-reuse", format!("start {k} gave a connecting worker the id {w}, which the journal it was started from already mentions ({:?})", before.workers));
            }
        }
        for (name, v) in [("queue", &queues_issued), ("worker", &workers_issued)] {
            let d: BTreeSet<_> = v.iter().collect();
            if d.len() != v.len() {
                rep.v(&format!("I1-{name}-id-reuse"), format!("start {k} issued the {name} ids {v:?}"));
            }
        }
        let distinct: BTreeSet<_> = issued.iter().collect();
        if distinct.len() != issued.len() {
            rep.v("I1-job-id-reuse", format!("start {k} issued {issued:?}"));
        }
        {
            let v1 = job_view(&mut s).await.ok();
            let flushed = matches!(call(&mut s, FromClientMessage::FlushJournal).await, Ok(ToClientMessage::Finished));
            let v2 = job_view(&mut s).await.ok();
            let stable = flushed && v1.is_some() && v1 == v2 && (!worker_seen || !v1.as_ref().map(|v| work_left(v, &runnable)).unwrap_or(true));
            expected_view = if stable { v1 } else { None };
        }
        if client_stop_server(s.connection()).await.is_err() {
            inconclusive!(format!("start {k}: the stop request could not be sent"));
        }
        drop(s);
        // wait for the server thread (it flushes and closes the journal on its way out)
        let t0 = Instant::now();
        loop {
            match srv.done.try_recv() {
                Ok(Ok(())) => break,
                Ok(Err(e)) => inconclusive!(format!("start {k}: the server ended with {e}")),
                Err(mpsc::TryRecvError::Empty) if t0.elapsed() < Duration::from_secs(20) => tokio::time::sleep(Duration::from_millis(2)).await,
                Err(_) => inconclusive!(format!("start {k}: the server did not stop within 20 s")),
            }
        }
        match journal_facts(&journal) {
            Ok(Facts { uids, .. }) => {
                rep.c("server_start_records_read", uids.len() as u64);
                if let Some(l) = &lineage_uid {
                    if uids.iter().any(|u| u != l) {
                        rep.v("I4-journal-holds-two-server-uids", format!("after start {k} the journal of server {l} has ServerStart records {uids:?}"));
                    }
                }
            }
            Err(e) => inconclusive!(format!("journal unreadable after start {k}: {e}")),
        }
    }
    let _ = std::fs::remove_dir_all(&base);
    rep
}

pub fn params(prop: &str) -> (&'static str, serde_json::Value, Vec<&'static str>) {
    let (rule, minima, assumptions) = params_c11();
    if prop == "C10" {
        return (
            "real-server lab (the same runs as for C11, judged for C10): before the server is stopped - or a flushed copy of its journal is taken, a crash point - a real client records what it sees of every job (tasks, finished, failed, canceled, aborted, open); after the restart through the real `init_hq_server` every job that was unfinished must be reported exactly as before and no job may appear that was not there (completed jobs may be dropped); real tako workers with a launcher that finishes every task at once drain the runnable tasks in between, so jobs are compared in all of: untouched, partly finished (tasks no lab worker can run stay waiting), finished, canceled+forgotten, open",
            json!({"server_starts": 200, "job_views_compared_after_restart": 80, "unfinished_jobs_compared_after_restart": 80, "partly_finished_jobs_compared_after_restart": 5, "real_worker_ran_until_no_task_was_left.with_work": 15}),
            assumptions,
        );
    }
    (rule, minima, assumptions)
}

fn params_c11() -> (&'static str, serde_json::Value, Vec<&'static str>) {
    (
        "real-server lab: 2-4 consecutive starts of the real `init_hq_server` (own thread, sockets on localhost, real journal file and journal thread) on one journal lineage, each with or without a configured server uid (what --access-file does); a real client session reads the server info, submits / opens / cancels+forgets jobs, creates and removes allocation queues, takes flushed copies of the journal (crash points) and stops the server; real tako workers (`tako::worker::run_worker`) register over TCP and disconnect; the uid reported after every restart, the uid in submit answers and in all ServerStart records must be the lineage's, and every job id, queue id and worker id issued must be new to the journal the server was started from",
        json!({"server_starts": 200, "restarts_on_an_existing_journal": 100, "restarts_with_a_configured_uid_that_differs_from_the_journal": 40, "job_ids_issued_after_restart": 60, "queue_ids_issued_after_restart": 30, "worker_ids_issued_after_restart": 30}),
        vec![
            "real-server lab: real time and real sockets on localhost; a start, request or stop that does not complete within 20 s makes the case inconclusive, never a violation",
            "real-server lab: the workers are real tako workers with a launcher that starts nothing, and they disconnect right after registering; queues are created through the real client request, the batch system's programs (sbatch/qsub) do not exist in the sandbox, so no allocation is ever submitted",
        ],
    )
}

pub fn main(args: &[String]) -> i32 {
    let a = Args::parse(args);
    let prop = a.get("prop").unwrap_or("C11").to_string();
    let seed = a.u64("seed", 1);
    let shard = a.u64("shard", 0);
    let max_runs = a.u64("runs", 1000);
    let secs = a.u64("secs", 30);
    let out = a.get("out").unwrap_or("/dev/stdout").to_string();
    let replay_dir = a.get("replays").unwrap_or("/verif/replays").to_string();
    let only_regress = a.get("only-regress").is_some();
    let start = Instant::now();
    let deadline = start + Duration::from_secs(secs);
    let tmp = PathBuf::from(std::env::var("HQV_TMP").unwrap_or_else(|_| "/tmp".into())).join(format!("hqv-realserver-{}", std::process::id()));
    std::fs::create_dir_all(&tmp).unwrap();
    let rt = tokio::runtime::Builder::new_current_thread().enable_all().build().unwrap();
    let mut runs = 0u64;
    let mut held = 0u64;
    let mut violated = 0u64;
    let mut steps = 0u64;
    let mut cov: BTreeMap<String, u64> = BTreeMap::new();
    let mut hashes: BTreeSet<u64> = BTreeSet::new();
    let mut violations = Vec::new();
    let mut seen = BTreeSet::new();
    let mut samples = Vec::new();
    let mut inconclusive: BTreeMap<String, u64> = BTreeMap::new();
    let mut regress: Vec<Vec<Start>> = Vec::new();
    if shard == 0 || only_regress {
        if let Some(dir) = a.get("regress") {
            let mut files: Vec<_> = std::fs::read_dir(dir).map(|d| d.filter_map(|e| e.ok()).map(|e| e.path()).collect()).unwrap_or_default();
            files.sort();
            for f in files {
                if !f.file_name().unwrap().to_string_lossy().starts_with(&prop) {
                    continue;
                }
                if let Ok(v) = serde_json::from_str::<serde_json::Value>(&std::fs::read_to_string(&f).unwrap_or_default()) {
                    if let Ok(c) = serde_json::from_value::<Vec<Start>>(v["case"]["server_starts"].clone()) {
                        regress.push(c);
                    }
                }
            }
        }
    }
    let n_regress = regress.len();
    let mut regress = regress.into_iter();
    let mut i = 0u64;
    while i < max_runs && Instant::now() < deadline {
        let s = rng::hash3(seed, shard ^ 0xe9, i);
        i += 1;
        let case = match regress.next() {
            Some(c) => c,
            None if only_regress => break,
            None => gen_case(s),
        };
        runs += 1;
        steps += case.iter().map(|st| st.ops.len() as u64 + 2).sum::<u64>();
        let _ = crate::panics::take();
        let local = tokio::task::LocalSet::new();
        let rep = local.block_on(&rt, run_case(&case, &tmp, i));
        drop(local);
        for (k, n) in &rep.cov {
            *cov.entry(k.clone()).or_insert(0) += n;
        }
        if let Some(why) = &rep.inconclusive {
            if rep.violations.is_empty() {
                let short: String = why.chars().take(if std::env::var("HQV_RS_DEBUG").is_ok() { 700 } else { 70 }).collect();
                *inconclusive.entry(short).or_insert(0) += 1;
                continue;
            }
        }
        if rep.violations.is_empty() {
            held += 1;
        } else {
            violated += 1;
            for (rule, detail) in &rep.violations {
                if seen.insert(rule.clone()) {
                    let path = save_replay_value(&replay_dir, &prop, rule, s, &json!({"server_starts": case}));
                    violations.push(json!({"signature": rule, "detail": detail, "seed": s, "source": "generated", "replay": path}));
                }
            }
        }
        if rep.cov.get("restarts_on_an_existing_journal").copied().unwrap_or(0) > 0 {
            hashes.insert(rng::mix(s ^ 0xe9));
            if samples.len() < 2 {
                samples.push(json!({"seed": s, "server_starts": case, "observed": rep.cov}));
            }
        }
    }
    let _ = std::fs::remove_dir_all(&tmp);
    let (rule, minima, assumptions) = params(&prop);
    let summary = json!({
        "prop": prop, "shard": shard, "seed": seed, "runs": runs, "steps": steps,
        "verdicts": {"held": held, "violated": violated},
        "inconclusive": inconclusive,
        "nontrivial": hashes.len(),
        "hashes": hashes.iter().collect::<Vec<_>>(),
        "coverage": cov,
        "violations": violations,
        "samples": samples,
        "regress_replayed": n_regress,
        "rule": rule,
        "minima": minima,
        "assumptions": assumptions,
        "wall_s": start.elapsed().as_secs_f64(),
    });
    std::fs::write(&out, serde_json::to_string(&summary).unwrap()).unwrap();
    0
}
