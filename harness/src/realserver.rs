//! E9 - real-server restart lab (C11, the clauses that live in `bootstrap::start_server`).
//!
//! Every other lab that restores a journal goes through a hook that re-states the second half of
//! `start_server`. Here the real entry point of `hq server start` (`init_hq_server`) runs in its
//! own thread, with real sockets on localhost, a real journal file and the real journal thread; a
//! real client session (`get_client_session`) asks for the server info, submits jobs and stops the
//! server; then the server is started again on the same journal - with or without a configured
//! server uid, which is what `--access-file` does - and what it reports is compared with what the
//! journal lineage had before.
//!
//! Real time and real sockets: anything that does not answer in time makes the case
//! *inconclusive*; only positive observations (a different uid, a re-issued id) are violations.

use std::collections::{BTreeMap, BTreeSet};
use std::path::{Path, PathBuf};
use std::sync::mpsc;
use std::time::{Duration, Instant};

use hyperqueue::client::globalsettings::GlobalSettings;
use hyperqueue::client::output::quiet::Quiet;
use hyperqueue::client::server::client_stop_server;
use hyperqueue::client::status::Status;
use hyperqueue::server::bootstrap::{ServerConfig, get_client_session, init_hq_server};
use hyperqueue::server::event::payload::EventPayload;
use hyperqueue::transfer::connection::ClientSession;
use hyperqueue::transfer::messages::{
    AutoAllocRequest, AutoAllocResponse, CancelRequest, ForgetJobRequest, FromClientMessage, IdSelector, JobDescription, SubmitResponse, ToClientMessage,
};
use serde::{Deserialize, Serialize};
use serde_json::json;

use crate::rng::{self, Rng};
use crate::shard::{Args, save_replay_value};
use crate::sim::conv;
use crate::sim::types::*;

#[derive(Serialize, Deserialize, Clone, Debug)]
pub enum Op {
    /// submit a closed one-task job
    Submit,
    /// open a job (takes a job id as well)
    Open,
    /// cancel + forget the newest job: the highest id disappears from the server's memory
    CancelForgetNewest,
    /// flush the journal and keep a copy of it: what a crash at this point leaves behind
    SnapshotJournal,
    /// create an allocation queue (`hq alloc add`), through the real client request
    AddQueue,
    /// remove the newest queue of this start (forced)
    RemoveNewestQueue,
    /// a real tako worker (`tako::worker::run_worker`) registers over TCP and disconnects again
    ConnectWorker,
}

#[derive(Serialize, Deserialize, Clone, Debug)]
pub struct Start {
    /// `Some` = the server is started with an access file that fixes the uid
    pub configured_uid: Option<String>,
    pub ops: Vec<Op>,
    /// restart from the journal copy taken by the last `SnapshotJournal` of the previous start
    /// instead of the journal the stopped server left
    pub from_snapshot: bool,
}

pub fn gen_case(seed: u64) -> Vec<Start> {
    let mut rng = Rng::new(seed);
    let n = rng.range(2, 4);
    // the access file is either the same for every start or regenerated now and then
    let fixed = format!("U{:05}", rng.below(100_000));
    (0..n)
        .map(|i| {
            let configured_uid = if rng.chance(60, 100) {
                Some(if rng.chance(50, 100) { fixed.clone() } else { format!("U{:05}", rng.below(100_000)) })
            } else {
                None
            };
            let mut ops = Vec::new();
            for _ in 0..rng.range(0, 6) {
                ops.push(match rng.below(16) {
                    0..=3 => Op::Submit,
                    4 | 5 => Op::Open,
                    6 | 7 => Op::CancelForgetNewest,
                    8 => Op::SnapshotJournal,
                    9..=11 => Op::AddQueue,
                    12 => Op::RemoveNewestQueue,
                    _ => Op::ConnectWorker,
                });
            }
            Start { configured_uid, ops, from_snapshot: i > 0 && rng.chance(25, 100) }
        })
        .collect()
}

#[derive(Default)]
pub struct Rep {
    pub violations: Vec<(String, String)>,
    pub inconclusive: Option<String>,
    pub cov: BTreeMap<String, u64>,
}

impl Rep {
    fn c(&mut self, k: &str, n: u64) {
        *self.cov.entry(k.to_string()).or_insert(0) += n;
    }
    fn v(&mut self, rule: &str, detail: String) {
        if !self.violations.iter().any(|x| x.0 == rule) {
            self.violations.push((rule.to_string(), detail));
        }
    }
}

fn server_config(journal: &Path, uid: Option<String>) -> ServerConfig {
    ServerConfig {
        client_host: "localhost".into(),
        worker_host: "localhost".into(),
        idle_timeout: None,
        client_port: None,
        worker_port: None,
        journal_path: Some(journal.to_path_buf()),
        journal_flush_period: Duration::from_millis(20),
        worker_secret_key: None,
        client_secret_key: None,
        server_uid: uid,
        scheduler_mip_time_limit: Duration::from_secs(5),
    }
}

struct Running {
    done: mpsc::Receiver<Result<(), String>>,
}

fn start_server(dir: &Path, journal: &Path, uid: Option<String>) -> Running {
    let (tx, rx) = mpsc::channel();
    let dir = dir.to_path_buf();
    let journal = journal.to_path_buf();
    std::thread::spawn(move || {
        let r = std::panic::catch_unwind(std::panic::AssertUnwindSafe(|| {
            let rt = tokio::runtime::Builder::new_current_thread().enable_all().build().unwrap();
            let gs = GlobalSettings::new(dir, Box::new(Quiet));
            rt.block_on(init_hq_server(&gs, server_config(&journal, uid))).map_err(|e| format!("{e:?}"))
        }));
        let _ = tx.send(match r {
            Ok(r) => r,
            Err(_) => Err("the server thread panicked".into()),
        });
    });
    Running { done: rx }
}

async fn connect(dir: &Path, srv: &Running) -> Result<ClientSession, String> {
    let t0 = Instant::now();
    loop {
        if let Ok(s) = get_client_session(dir).await {
            return Ok(s);
        }
        if let Ok(r) = srv.done.try_recv() {
            return Err(format!("the server ended before a client could connect: {r:?}"));
        }
        if t0.elapsed() > Duration::from_secs(20) {
            return Err("no client connection within 20 s".into());
        }
        tokio::time::sleep(Duration::from_millis(5)).await;
    }
}

async fn call(s: &mut ClientSession, m: FromClientMessage) -> Result<ToClientMessage, String> {
    match tokio::time::timeout(Duration::from_secs(20), s.connection().send_and_receive(m)).await {
        Ok(Ok(r)) => Ok(r),
        Ok(Err(e)) => Err(format!("request failed: {e:?}")),
        Err(_) => Err("no answer within 20 s".into()),
    }
}

#[derive(Default)]
struct Facts {
    uids: Vec<String>,
    jobs: BTreeSet<u32>,
    queues: BTreeSet<u32>,
    workers: BTreeSet<u32>,
}

/// uids of all `ServerStart` records and the job / queue / worker ids the journal mentions
fn journal_facts(path: &Path) -> Result<Facts, String> {
    let events = crate::journal::read_all(path).map_err(|e| format!("{e:?}"))?;
    let mut f = Facts::default();
    for e in &events {
        match &e.payload {
            EventPayload::ServerStart { server_uid } => f.uids.push(server_uid.clone()),
            EventPayload::Submit { job_id, .. } | EventPayload::JobOpen(job_id, _) | EventPayload::JobCompleted(job_id) | EventPayload::JobClose(job_id) => {
                f.jobs.insert(job_id.as_num());
            }
            EventPayload::AllocationQueueCreated(q, _) | EventPayload::AllocationQueueRemoved(q) => {
                f.queues.insert(*q);
            }
            EventPayload::WorkerConnected(w, _) | EventPayload::WorkerLost(w, _) => {
                f.workers.insert(w.as_num());
            }
            _ => {}
        }
    }
    Ok(f)
}

struct NoLauncher;

impl tako::launcher::TaskLauncher for NoLauncher {
    fn build_task(&self, _ctx: tako::launcher::TaskBuildContext, _stop: tokio::sync::oneshot::Receiver<tako::launcher::StopReason>) -> tako::Result<tako::launcher::TaskLaunchData> {
        Err(tako::Error::GenericError("the lab's workers run nothing".into()))
    }
}

pub async fn run_case(case: &[Start], tmp: &Path, id: u64) -> Rep {
    let mut rep = Rep::default();
    let base = tmp.join(format!("case-{id}"));
    let _ = std::fs::remove_dir_all(&base);
    std::fs::create_dir_all(&base).unwrap();
    let mut journal = base.join("journal-0.bin");
    let mut lineage_uid: Option<String> = None;
    let mut snapshot: Option<PathBuf> = None;
    let array = SubmitSpec::Array {
        ids: None,
        entries: None,
        req: ReqSpec { variants: vec![VariantSpec { n_nodes: 0, min_time_s: 0, entries: vec![EntrySpec { resource: "cpus".into(), policy: Policy::Compact, amount: 10_000 }] }] },
        attrs: TaskAttrs { prio: 0, time_limit_s: None, crash: CrashSpec::Max(5) },
    };
    macro_rules! inconclusive {
        ($e:expr) => {{
            rep.inconclusive = Some($e);
            return rep;
        }};
    }
    for (k, st) in case.iter().enumerate() {
        if k > 0 && st.from_snapshot {
            if let Some(snap) = snapshot.take() {
                // the server "crashed" when the copy was taken: everything written later is lost
                journal = snap;
                rep.c("restarts_from_a_journal_copy_taken_mid_run", 1);
            }
        }
        let existed = journal.exists();
        let before = if existed {
            match journal_facts(&journal) {
                Ok(f) => f,
                Err(e) => inconclusive!(format!("journal unreadable before start {k}: {e}")),
            }
        } else {
            Facts::default()
        };
        let (uids_before, jobs_before) = (&before.uids, &before.jobs);
        let dir = base.join(format!("dir-{k}"));
        std::fs::create_dir_all(&dir).unwrap();
        let srv = start_server(&dir, &journal, st.configured_uid.clone());
        let mut s = match connect(&dir, &srv).await {
            Ok(s) => s,
            Err(e) => inconclusive!(format!("start {k}: {e}")),
        };
        rep.c("server_starts", 1);
        let (uid, worker_port) = match call(&mut s, FromClientMessage::ServerInfo).await {
            Ok(ToClientMessage::ServerInfo(i)) => (i.server_uid, i.worker_port),
            other => inconclusive!(format!("start {k}: server info: {other:?}")),
        };
        if existed {
            rep.c("restarts_on_an_existing_journal", 1);
            if st.configured_uid.is_some() {
                rep.c("restarts_with_a_configured_uid", 1);
                if st.configured_uid != lineage_uid {
                    rep.c("restarts_with_a_configured_uid_that_differs_from_the_journal", 1);
                }
            }
            if let Some(l) = &lineage_uid {
                if &uid != l {
                    rep.v(
                        "I4-server-uid-changed-by-restart",
                        format!("start {k} on the journal of server {l} (configured uid: {:?}) reports server uid {uid}", st.configured_uid),
                    );
                }
            }
            if uids_before.iter().any(|u| u != &uids_before[0]) {
                rep.v("I4-journal-holds-two-server-uids", format!("before start {k} the journal's ServerStart records carry {uids_before:?}"));
            }
        } else {
            if let Some(c) = &st.configured_uid {
                if c != &uid {
                    rep.v("I4-configured-uid-ignored-on-a-fresh-start", format!("fresh start with configured uid {c} reports {uid}"));
                }
            }
            lineage_uid = Some(uid.clone());
        }
        let mut issued: Vec<u32> = Vec::new();
        let mut queues_issued: Vec<u32> = Vec::new();
        let mut workers_issued: Vec<u32> = Vec::new();
        for op in &st.ops {
            match op {
                Op::AddQueue => {
                    let m = FromClientMessage::AutoAlloc(AutoAllocRequest::AddQueue { parameters: crate::queueids::params(queues_issued.len() as u32 + k as u32), dry_run: false });
                    match call(&mut s, m).await {
                        Ok(ToClientMessage::AutoAllocResponse(AutoAllocResponse::QueueCreateResponse(hyperqueue::transfer::messages::QueueCreateResponse::Created(q)))) => {
                            queues_issued.push(q);
                            rep.c("queue_ids_issued", 1);
                        }
                        other => inconclusive!(format!("start {k}: add queue: {other:?}")),
                    }
                }
                Op::RemoveNewestQueue => {
                    let Some(q) = queues_issued.last().copied() else { continue };
                    match call(&mut s, FromClientMessage::AutoAlloc(AutoAllocRequest::RemoveQueue { queue_id: q, force: true })).await {
                        Ok(ToClientMessage::AutoAllocResponse(AutoAllocResponse::QueueRemoved(_))) => rep.c("newest_queue_removed", 1),
                        // removed twice
                        Ok(ToClientMessage::Error(_)) => {}
                        other => inconclusive!(format!("start {k}: remove queue: {other:?}")),
                    }
                }
                Op::ConnectWorker => {
                    let spec = WorkerSpec { resources: vec![ResSpec { name: "cpus".into(), kind: ResKind::Range(2) }], group: "g".into(), time_limit_s: None };
                    let mut cfg = conv::worker_configuration(&spec, 1);
                    cfg.hostname = "localhost".into();
                    let addr: std::net::SocketAddr = format!("127.0.0.1:{worker_port}").parse().unwrap();
                    let stop = std::sync::Arc::new(tokio::sync::Notify::new());
                    let r = tokio::time::timeout(Duration::from_secs(20), tako::worker::run_worker(vec![addr], cfg, None, |_, _| Box::new(NoLauncher) as Box<dyn tako::launcher::TaskLauncher>, stop)).await;
                    match r {
                        Ok(Ok(((wid, _), fut))) => {
                            workers_issued.push(wid.as_num());
                            rep.c("worker_ids_issued", 1);
                            // the worker goes away again at once (connection closed)
                            drop(fut);
                        }
                        Ok(Err(e)) => inconclusive!(format!("start {k}: worker registration failed: {e:?}")),
                        Err(_) => inconclusive!(format!("start {k}: worker registration took more than 20 s")),
                    }
                }
                Op::Submit => {
                    let m = FromClientMessage::Submit(conv::submit_request(None, None, &array), None);
                    match call(&mut s, m).await {
                        Ok(ToClientMessage::SubmitResponse(SubmitResponse::Ok { job, server_uid })) => {
                            issued.push(job.info.id.as_num());
                            rep.c("job_ids_issued", 1);
                            if server_uid != uid {
                                rep.v("I4-submit-answer-names-another-server", format!("server info says {uid}, the submit answer {server_uid}"));
                            }
                        }
                        other => inconclusive!(format!("start {k}: submit: {other:?}")),
                    }
                }
                Op::Open => {
                    let m = FromClientMessage::OpenJob(JobDescription { name: "open".into(), max_fails: None });
                    match call(&mut s, m).await {
                        Ok(ToClientMessage::OpenJobResponse(r)) => {
                            issued.push(r.job_id.as_num());
                            rep.c("job_ids_issued", 1);
                        }
                        other => inconclusive!(format!("start {k}: open: {other:?}")),
                    }
                }
                Op::CancelForgetNewest => {
                    let Some(newest) = issued.last().copied() else { continue };
                    let sel = IdSelector::Specific(hyperqueue::common::arraydef::IntArray::from_id(newest));
                    match call(&mut s, FromClientMessage::Cancel(CancelRequest { selector: sel.clone(), reason: None })).await {
                        Ok(ToClientMessage::CancelJobResponse(_)) => {}
                        other => inconclusive!(format!("start {k}: cancel: {other:?}")),
                    }
                    match call(&mut s, FromClientMessage::ForgetJob(ForgetJobRequest { selector: sel, filter: vec![Status::Finished, Status::Failed, Status::Canceled] })).await {
                        Ok(ToClientMessage::ForgetJobResponse(_)) => rep.c("newest_job_canceled_and_forgotten", 1),
                        other => inconclusive!(format!("start {k}: forget: {other:?}")),
                    }
                }
                Op::SnapshotJournal => {
                    match call(&mut s, FromClientMessage::FlushJournal).await {
                        Ok(ToClientMessage::Finished) => {}
                        other => inconclusive!(format!("start {k}: flush: {other:?}")),
                    }
                    let copy = base.join(format!("journal-copy-{k}-{}.bin", issued.len()));
                    if std::fs::copy(&journal, &copy).is_ok() {
                        snapshot = Some(copy);
                        rep.c("journal_copies_taken_mid_run", 1);
                    }
                }
            }
        }
        // ids issued by this start against everything the journal mentioned before it
        for j in &issued {
            if existed {
                rep.c("job_ids_issued_after_restart", 1);
            }
            if jobs_before.contains(j) {
                rep.v("I1-job-id-reuse", format!("start {k} issued job id {j}, which the journal it was started from already mentions ({jobs_before:?})"));
            }
        }
        for q in &queues_issued {
            if existed {
                rep.c("queue_ids_issued_after_restart", 1);
            }
            if before.queues.contains(q) {
                rep.v("I1-queue-id-reuse", format!("start {k} issued queue id {q}, which the journal it was started from already mentions ({:?})", before.queues));
            }
        }
        for w in &workers_issued {
            if existed {
                rep.c("worker_ids_issued_after_restart", 1);
            }
            if before.workers.contains(w) {
                rep.v("I1-worker-id-reuse", format!("start {k} gave a connecting worker the id {w}, which the journal it was started from already mentions ({:?})", before.workers));
            }
        }
        for (name, v) in [("queue", &queues_issued), ("worker", &workers_issued)] {
            let d: BTreeSet<_> = v.iter().collect();
            if d.len() != v.len() {
                rep.v(&format!("I1-{name}-id-reuse"), format!("start {k} issued the {name} ids {v:?}"));
            }
        }
        let distinct: BTreeSet<_> = issued.iter().collect();
        if distinct.len() != issued.len() {
            rep.v("I1-job-id-reuse", format!("start {k} issued {issued:?}"));
        }
        if client_stop_server(s.connection()).await.is_err() {
            inconclusive!(format!("start {k}: the stop request could not be sent"));
        }
        drop(s);
        // wait for the server thread (it flushes and closes the journal on its way out)
        let t0 = Instant::now();
        loop {
            match srv.done.try_recv() {
                Ok(Ok(())) => break,
                Ok(Err(e)) => inconclusive!(format!("start {k}: the server ended with {e}")),
                Err(mpsc::TryRecvError::Empty) if t0.elapsed() < Duration::from_secs(20) => tokio::time::sleep(Duration::from_millis(2)).await,
                Err(_) => inconclusive!(format!("start {k}: the server did not stop within 20 s")),
            }
        }
        match journal_facts(&journal) {
            Ok(Facts { uids, .. }) => {
                rep.c("server_start_records_read", uids.len() as u64);
                if let Some(l) = &lineage_uid {
                    if uids.iter().any(|u| u != l) {
                        rep.v("I4-journal-holds-two-server-uids", format!("after start {k} the journal of server {l} has ServerStart records {uids:?}"));
                    }
                }
            }
            Err(e) => inconclusive!(format!("journal unreadable after start {k}: {e}")),
        }
    }
    let _ = std::fs::remove_dir_all(&base);
    rep
}

pub fn params() -> (&'static str, serde_json::Value, Vec<&'static str>) {
    (
        "real-server lab: 2-4 consecutive starts of the real `init_hq_server` (own thread, sockets on localhost, real journal file and journal thread) on one journal lineage, each with or without a configured server uid (what --access-file does); a real client session reads the server info, submits / opens / cancels+forgets jobs, creates and removes allocation queues, takes flushed copies of the journal (crash points) and stops the server; real tako workers (`tako::worker::run_worker`) register over TCP and disconnect; the uid reported after every restart, the uid in submit answers and in all ServerStart records must be the lineage's, and every job id, queue id and worker id issued must be new to the journal the server was started from",
        json!({"server_starts": 200, "restarts_on_an_existing_journal": 100, "restarts_with_a_configured_uid_that_differs_from_the_journal": 40, "job_ids_issued_after_restart": 60, "queue_ids_issued_after_restart": 30, "worker_ids_issued_after_restart": 30}),
        vec![
            "real-server lab: real time and real sockets on localhost; a start, request or stop that does not complete within 20 s makes the case inconclusive, never a violation",
            "real-server lab: the workers are real tako workers with a launcher that starts nothing, and they disconnect right after registering; queues are created through the real client request, the batch system's programs (sbatch/qsub) do not exist in the sandbox, so no allocation is ever submitted",
        ],
    )
}

pub fn main(args: &[String]) -> i32 {
    let a = Args::parse(args);
    let prop = a.get("prop").unwrap_or("C11").to_string();
    let seed = a.u64("seed", 1);
    let shard = a.u64("shard", 0);
    let max_runs = a.u64("runs", 1000);
    let secs = a.u64("secs", 30);
    let out = a.get("out").unwrap_or("/dev/stdout").to_string();
    let replay_dir = a.get("replays").unwrap_or("/verif/replays").to_string();
    let only_regress = a.get("only-regress").is_some();
    let start = Instant::now();
    let deadline = start + Duration::from_secs(secs);
    let tmp = PathBuf::from(std::env::var("HQV_TMP").unwrap_or_else(|_| "/tmp".into())).join(format!("hqv-realserver-{}", std::process::id()));
    std::fs::create_dir_all(&tmp).unwrap();
    let rt = tokio::runtime::Builder::new_current_thread().enable_all().build().unwrap();
    let mut runs = 0u64;
    let mut held = 0u64;
    let mut violated = 0u64;
    let mut steps = 0u64;
    let mut cov: BTreeMap<String, u64> = BTreeMap::new();
    let mut hashes: BTreeSet<u64> = BTreeSet::new();
    let mut violations = Vec::new();
    let mut seen = BTreeSet::new();
    let mut samples = Vec::new();
    let mut inconclusive: BTreeMap<String, u64> = BTreeMap::new();
    let mut regress: Vec<Vec<Start>> = Vec::new();
    if shard == 0 || only_regress {
        if let Some(dir) = a.get("regress") {
            let mut files: Vec<_> = std::fs::read_dir(dir).map(|d| d.filter_map(|e| e.ok()).map(|e| e.path()).collect()).unwrap_or_default();
            files.sort();
            for f in files {
                if !f.file_name().unwrap().to_string_lossy().starts_with(&prop) {
                    continue;
                }
                if let Ok(v) = serde_json::from_str::<serde_json::Value>(&std::fs::read_to_string(&f).unwrap_or_default()) {
                    if let Ok(c) = serde_json::from_value::<Vec<Start>>(v["case"]["server_starts"].clone()) {
                        regress.push(c);
                    }
                }
            }
        }
    }
    let n_regress = regress.len();
    let mut regress = regress.into_iter();
    let mut i = 0u64;
    while i < max_runs && Instant::now() < deadline {
        let s = rng::hash3(seed, shard ^ 0xe9, i);
        i += 1;
        let case = match regress.next() {
            Some(c) => c,
            None if only_regress => break,
            None => gen_case(s),
        };
        runs += 1;
        steps += case.iter().map(|st| st.ops.len() as u64 + 2).sum::<u64>();
        let _ = crate::panics::take();
        let rep = rt.block_on(run_case(&case, &tmp, i));
        for (k, n) in &rep.cov {
            *cov.entry(k.clone()).or_insert(0) += n;
        }
        if let Some(why) = &rep.inconclusive {
            if rep.violations.is_empty() {
                let short: String = why.chars().take(70).collect();
                *inconclusive.entry(short).or_insert(0) += 1;
                continue;
            }
        }
        if rep.violations.is_empty() {
            held += 1;
        } else {
            violated += 1;
            for (rule, detail) in &rep.violations {
                if seen.insert(rule.clone()) {
                    let path = save_replay_value(&replay_dir, &prop, rule, s, &json!({"server_starts": case}));
                    violations.push(json!({"signature": rule, "detail": detail, "seed": s, "source": "generated", "replay": path}));
                }
            }
        }
        if rep.cov.get("restarts_on_an_existing_journal").copied().unwrap_or(0) > 0 {
            hashes.insert(rng::mix(s ^ 0xe9));
            if samples.len() < 2 {
                samples.push(json!({"seed": s, "server_starts": case, "observed": rep.cov}));
            }
        }
    }
    let _ = std::fs::remove_dir_all(&tmp);
    let (rule, minima, assumptions) = params();
    let summary = json!({
        "prop": prop, "shard": shard, "seed": seed, "runs": runs, "steps": steps,
        "verdicts": {"held": held, "violated": violated},
        "inconclusive": inconclusive,
        "nontrivial": hashes.len(),
        "hashes": hashes.iter().collect::<Vec<_>>(),
        "coverage": cov,
        "violations": violations,
        "samples": samples,
        "regress_replayed": n_regress,
        "rule": rule,
        "minima": minima,
        "assumptions": assumptions,
        "wall_s": start.elapsed().as_secs_f64(),
    });
    std::fs::write(&out, serde_json::to_string(&summary).unwrap()).unwrap();
    0
}
