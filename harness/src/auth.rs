//! E7 — handshake lab (C20): two real `do_authentication` futures connected through a
//! man-in-the-middle that owns the four handshake frames.

use std::collections::{BTreeMap, BTreeSet};
use std::sync::Arc;
use std::time::{Duration, Instant};

use bytes::Bytes;
use futures::{SinkExt, StreamExt};
use orion::kdf::SecretKey;
use serde::{Deserialize, Serialize};
use serde_json::json;
use tokio::io::DuplexStream;
use tokio_util::codec::{Framed, LengthDelimitedCodec};

use crate::rng::{self, Rng};
use crate::shard::{Args, save_replay_value};

/* mirror structs of tako's (crate-private) handshake messages; same bincode layout */
#[derive(Serialize, Deserialize, Debug, Clone, PartialEq)]
struct Challenge {
    #[serde(with = "serde_bytes")]
    challenge: Vec<u8>,
}
#[derive(Serialize, Deserialize, Debug, Clone, PartialEq)]
enum Mode {
    NoAuth,
    Encryption(Challenge),
}
#[derive(Serialize, Deserialize, Debug, Clone, PartialEq)]
struct Request {
    protocol: u32,
    role: String,
    mode: Mode,
}
#[derive(Serialize, Deserialize, Debug, Clone, PartialEq)]
struct EncResponse {
    #[serde(with = "serde_bytes")]
    response: Vec<u8>,
    #[serde(with = "serde_bytes")]
    nonce: Vec<u8>,
}
#[derive(Serialize, Deserialize, Debug, Clone, PartialEq)]
struct AuthError {
    message: String,
}
#[derive(Serialize, Deserialize, Debug, Clone, PartialEq)]
enum Response {
    NoAuth,
    Encryption(EncResponse),
    Error(AuthError),
}

fn ser<T: Serialize>(v: &T) -> Vec<u8> {
    tako::comm::serialize(v).unwrap()
}
fn de<'a, T: Deserialize<'a>>(b: &'a [u8]) -> Option<T> {
    tako::comm::deserialize(b).ok()
}

#[derive(Clone, Copy, Debug, PartialEq, Eq, Serialize, Deserialize, PartialOrd, Ord)]
pub enum KeyCfg {
    None,
    K1,
    K2,
}

#[derive(Clone, Debug, Serialize, Deserialize, PartialEq, Eq, PartialOrd, Ord)]
pub struct EndCfg {
    pub key: KeyCfg,
    pub protocol: u32,
    pub my_role: String,
    pub peer_role: String,
}

/// What the man in the middle does with one frame.
#[derive(Clone, Debug, Serialize, Deserialize, PartialEq, Eq, PartialOrd, Ord)]
pub enum FrameOp {
    Pass,
    /// send the receiver's own frame of the same kind back to it
    Reflect,
    /// reflect the receiver's own request but rewrite the role to the one it expects
    ReflectRewriteRole,
    /// request carrying the receiver's own challenge, correct role/protocol
    EchoChallenge,
    /// the same-direction frame of an earlier honest session with the same configuration
    ReplayOld,
    /// the opposite-direction frame of the earlier session
    ReplayOldOpposite,
    FlipBit(u32),
    SetProtocol(u32),
    SetRole(String),
    DowngradeNoAuth,
    TruncateChallenge,
    ErrorResponse,
    SwapNonce,
}

#[derive(Clone, Debug, Serialize, Deserialize)]
pub struct Case {
    pub a: EndCfg,
    pub b: EndCfg,
    /// ops on: request A->B, request B->A, response A->B, response B->A
    pub ops: [FrameOp; 4],
}

static ROLES: [&str; 3] = ["server", "worker", "client"];

fn leak(s: &str) -> &'static str {
    ROLES.iter().find(|r| **r == s).copied().unwrap_or("other")
}

fn key(k: KeyCfg, keys: &(Arc<SecretKey>, Arc<SecretKey>)) -> Option<Arc<SecretKey>> {
    match k {
        KeyCfg::None => None,
        KeyCfg::K1 => Some(keys.0.clone()),
        KeyCfg::K2 => Some(keys.1.clone()),
    }
}

type Fr = Framed<DuplexStream, LengthDelimitedCodec>;

fn framed(s: DuplexStream) -> Fr {
    LengthDelimitedCodec::builder().little_endian().max_frame_length(1 << 20).new_framed(s)
}

#[derive(Default, Clone, Debug)]
pub struct Frames {
    pub req_a: Vec<u8>,
    pub req_b: Vec<u8>,
    pub resp_a: Vec<u8>,
    pub resp_b: Vec<u8>,
    // what was delivered
    pub req_to_b: Vec<u8>,
    pub req_to_a: Vec<u8>,
    pub resp_to_b: Vec<u8>,
    pub resp_to_a: Vec<u8>,
}

pub struct SessionResult {
    pub a_ok: bool,
    pub b_ok: bool,
    pub a_err: String,
    pub b_err: String,
    pub frames: Frames,
    /// after mutual acceptance: did a sealed message round-trip both ways?
    pub roundtrip: Option<bool>,
}

fn apply_request_op(op: &FrameOp, original: &[u8], receiver_own: &[u8], receiver: &EndCfg, old_same: Option<&Vec<u8>>, old_opp: Option<&Vec<u8>>) -> Vec<u8> {
    match op {
        FrameOp::Pass => original.to_vec(),
        FrameOp::Reflect => receiver_own.to_vec(),
        FrameOp::ReflectRewriteRole => {
            let mut r: Request = de(receiver_own).unwrap();
            r.role = receiver.peer_role.clone();
            ser(&r)
        }
        FrameOp::EchoChallenge => {
            let own: Request = de(receiver_own).unwrap();
            ser(&Request {
                protocol: receiver.protocol,
                role: receiver.peer_role.clone(),
                mode: own.mode,
            })
        }
        FrameOp::ReplayOld => old_same.cloned().unwrap_or_else(|| original.to_vec()),
        FrameOp::ReplayOldOpposite => old_opp.cloned().unwrap_or_else(|| original.to_vec()),
        FrameOp::FlipBit(n) => {
            let mut v = original.to_vec();
            if !v.is_empty() {
                let bit = *n as usize % (v.len() * 8);
                v[bit / 8] ^= 1 << (bit % 8);
            }
            v
        }
        FrameOp::SetProtocol(p) => {
            let mut r: Request = de(original).unwrap();
            r.protocol = *p;
            ser(&r)
        }
        FrameOp::SetRole(role) => {
            let mut r: Request = de(original).unwrap();
            r.role = role.clone();
            ser(&r)
        }
        FrameOp::DowngradeNoAuth => {
            let mut r: Request = de(original).unwrap();
            r.mode = Mode::NoAuth;
            ser(&r)
        }
        FrameOp::TruncateChallenge => {
            let mut r: Request = de(original).unwrap();
            if let Mode::Encryption(c) = &mut r.mode {
                c.challenge.truncate(8);
            }
            ser(&r)
        }
        FrameOp::ErrorResponse | FrameOp::SwapNonce => original.to_vec(),
    }
}

fn apply_response_op(op: &FrameOp, original: &[u8], receiver_own: &[u8], old_same: Option<&Vec<u8>>, old_opp: Option<&Vec<u8>>) -> Vec<u8> {
    match op {
        FrameOp::Pass => original.to_vec(),
        FrameOp::Reflect | FrameOp::ReflectRewriteRole | FrameOp::EchoChallenge => receiver_own.to_vec(),
        FrameOp::ReplayOld => old_same.cloned().unwrap_or_else(|| original.to_vec()),
        FrameOp::ReplayOldOpposite => old_opp.cloned().unwrap_or_else(|| original.to_vec()),
        FrameOp::FlipBit(n) => {
            let mut v = original.to_vec();
            if !v.is_empty() {
                let bit = *n as usize % (v.len() * 8);
                v[bit / 8] ^= 1 << (bit % 8);
            }
            v
        }
        FrameOp::DowngradeNoAuth => ser(&Response::NoAuth),
        FrameOp::ErrorResponse => ser(&Response::Error(AuthError { message: "mitm".into() })),
        FrameOp::SwapNonce => {
            // the sender's sealed response with the receiver's own nonce
            match (de::<Response>(original), de::<Response>(receiver_own)) {
                (Some(Response::Encryption(mut r)), Some(Response::Encryption(own))) => {
                    r.nonce = own.nonce;
                    ser(&Response::Encryption(r))
                }
                _ => original.to_vec(),
            }
        }
        FrameOp::SetProtocol(_) | FrameOp::SetRole(_) | FrameOp::TruncateChallenge => original.to_vec(),
    }
}

pub async fn session(case: &Case, keys: &(Arc<SecretKey>, Arc<SecretKey>), old: Option<&Frames>) -> SessionResult {
    let (a_end, a_mitm) = tokio::io::duplex(1 << 16);
    let (b_end, b_mitm) = tokio::io::duplex(1 << 16);
    let ka = key(case.a.key, keys);
    let kb = key(case.b.key, keys);
    let (ca, cb) = (case.a.clone(), case.b.clone());
    let fut_a = async move {
        let (mut w, mut r) = framed(a_end).split();
        let res = tako::comm::do_authentication(ca.protocol, leak(&ca.my_role), leak(&ca.peer_role), ka, &mut w, &mut r).await;
        // an endpoint that refuses closes the connection
        match res {
            Ok(x) => (Ok(x), Some((w, r))),
            Err(e) => (Err(e), None),
        }
    };
    let fut_b = async move {
        let (mut w, mut r) = framed(b_end).split();
        let res = tako::comm::do_authentication(cb.protocol, leak(&cb.my_role), leak(&cb.peer_role), kb, &mut w, &mut r).await;
        // an endpoint that refuses closes the connection
        match res {
            Ok(x) => (Ok(x), Some((w, r))),
            Err(e) => (Err(e), None),
        }
    };
    let ops = case.ops.clone();
    let (a_cfg, b_cfg) = (case.a.clone(), case.b.clone());
    let old = old.cloned();
    let mitm = async move {
        let mut fa = framed(a_mitm);
        let mut fb = framed(b_mitm);
        let mut f = Frames::default();
        let (Some(Ok(ra)), Some(Ok(rb))) = (fa.next().await, fb.next().await) else {
            return (f, fa, fb);
        };
        f.req_a = ra.to_vec();
        f.req_b = rb.to_vec();
        f.req_to_b = apply_request_op(&ops[0], &f.req_a, &f.req_b, &b_cfg, old.as_ref().map(|o| &o.req_a), old.as_ref().map(|o| &o.req_b));
        f.req_to_a = apply_request_op(&ops[1], &f.req_b, &f.req_a, &a_cfg, old.as_ref().map(|o| &o.req_b), old.as_ref().map(|o| &o.req_a));
        let _ = fb.send(Bytes::from(f.req_to_b.clone())).await;
        let _ = fa.send(Bytes::from(f.req_to_a.clone())).await;
        let (pa, pb) = (fa.next().await, fb.next().await);
        if let Some(Ok(x)) = pa {
            f.resp_a = x.to_vec();
        }
        if let Some(Ok(x)) = pb {
            f.resp_b = x.to_vec();
        }
        if !f.resp_a.is_empty() || !matches!(ops[2], FrameOp::Pass) {
            f.resp_to_b = apply_response_op(&ops[2], &f.resp_a, &f.resp_b, old.as_ref().map(|o| &o.resp_a), old.as_ref().map(|o| &o.resp_b));
            if !f.resp_to_b.is_empty() {
                let _ = fb.send(Bytes::from(f.resp_to_b.clone())).await;
            }
        }
        if !f.resp_b.is_empty() || !matches!(ops[3], FrameOp::Pass) {
            f.resp_to_a = apply_response_op(&ops[3], &f.resp_b, &f.resp_a, old.as_ref().map(|o| &o.resp_b), old.as_ref().map(|o| &o.resp_a));
            if !f.resp_to_a.is_empty() {
                let _ = fa.send(Bytes::from(f.resp_to_a.clone())).await;
            }
        }
        (f, fa, fb)
    };
    let ((ra, ha), (rb, hb), (frames, mut fa, mut fb)) = tokio::join!(fut_a, fut_b, mitm);
    let (a_ok, a_err) = match &ra {
        Ok(_) => (true, String::new()),
        Err(e) => (false, format!("{e:?}")),
    };
    let (b_ok, b_err) = match &rb {
        Ok(_) => (true, String::new()),
        Err(e) => (false, format!("{e:?}")),
    };
    // H1: a sealed message round-trips both ways (the man in the middle only forwards)
    let mut roundtrip = None;
    if let (Ok((mut sa, mut oa)), Ok((mut sb, mut ob)), Some((mut wa, mut rda)), Some((mut wb, mut rdb))) = (ra, rb, ha, hb) {
        let fwd = async {
            if let Some(Ok(x)) = fa.next().await {
                let _ = fb.send(x.freeze()).await;
            }
            if let Some(Ok(x)) = fb.next().await {
                let _ = fa.send(x.freeze()).await;
            }
        };
        let talk = async {
            let m1 = tako::comm::seal_message(&mut sa, Bytes::from(ser(&"hello from a".to_string())));
            let _ = wa.send(m1).await;
            let got_b: Option<String> = match rdb.next().await {
                Some(Ok(d)) => std::panic::catch_unwind(std::panic::AssertUnwindSafe(|| tako::comm::open_message(&mut ob, &d).ok())).ok().flatten(),
                _ => None,
            };
            let m2 = tako::comm::seal_message(&mut sb, Bytes::from(ser(&"hello from b".to_string())));
            let _ = wb.send(m2).await;
            let got_a: Option<String> = match rda.next().await {
                Some(Ok(d)) => std::panic::catch_unwind(std::panic::AssertUnwindSafe(|| tako::comm::open_message(&mut oa, &d).ok())).ok().flatten(),
                _ => None,
            };
            got_b.as_deref() == Some("hello from a") && got_a.as_deref() == Some("hello from b")
        };
        let (_, ok) = tokio::join!(fwd, talk);
        roundtrip = Some(ok);
    }
    SessionResult {
        a_ok,
        b_ok,
        a_err,
        b_err,
        frames,
        roundtrip,
    }
}

fn config_matches(a: &EndCfg, b: &EndCfg) -> bool {
    a.key == b.key && a.protocol == b.protocol && a.peer_role == b.my_role && b.peer_role == a.my_role
}

/// H3: may endpoint X (configuration `x`, honest peer configuration `y`) accept, given the frames?
/// `own_req` = X's request as sent, `got_req`/`got_resp` = what X received, `peer_got_req` = what
/// the honest peer received as X's request, `peer_resp` = what the honest peer sent as response.
fn keyed_accept_justified(x: &EndCfg, y: &EndCfg, own_req: &[u8], got_req: &[u8], got_resp: &[u8], peer_got_req: &[u8], peer_resp: &[u8]) -> bool {
    let Some(r) = de::<Request>(got_req) else { return false };
    let ok_req = r.protocol == x.protocol
        && r.role == x.peer_role
        && matches!(&r.mode, Mode::Encryption(c) if c.challenge.len() == 16);
    let own: Option<Request> = de(own_req);
    let peer_saw: Option<Request> = de(peer_got_req);
    let same_challenge = match (own, peer_saw) {
        (Some(Request { mode: Mode::Encryption(c1), .. }), Some(Request { mode: Mode::Encryption(c2), .. })) => c1 == c2,
        _ => false,
    };
    ok_req && x.key == y.key && got_resp == peer_resp && same_challenge && y.my_role == x.peer_role
}

pub struct Verdict {
    pub violations: Vec<(String, String)>,
    pub class: &'static str,
}

pub fn judge(case: &Case, r: &SessionResult) -> Verdict {
    let mut v = Vec::new();
    let untouched = case.ops.iter().all(|o| *o == FrameOp::Pass);
    let class;
    if untouched {
        if config_matches(&case.a, &case.b) {
            class = "H1-matching";
            if !(r.a_ok && r.b_ok) {
                v.push(("H1-matching-configuration-refused".to_string(), format!("a: {:?} b: {:?}", r.a_err, r.b_err)));
            } else if r.roundtrip != Some(true) {
                v.push(("H1-no-working-channel-after-accept".to_string(), "sealed messages do not round-trip after both ends accepted".to_string()));
            }
        } else {
            class = "H2-mismatch";
            if r.a_ok || r.b_ok {
                v.push((
                    "H2-mismatch-accepted".to_string(),
                    format!("a accepted: {}, b accepted: {} for a={:?} b={:?}", r.a_ok, r.b_ok, case.a, case.b),
                ));
            }
        }
    } else {
        class = "H3-manipulated";
        let f = &r.frames;
        if r.a_ok && case.a.key != KeyCfg::None && !keyed_accept_justified(&case.a, &case.b, &f.req_a, &f.req_to_a, &f.resp_to_a, &f.req_to_b, &f.resp_b) {
            v.push(("H3-keyed-endpoint-accepted-unproven-peer".to_string(), format!("endpoint A {:?} accepted under {:?}", case.a, case.ops)));
        }
        if r.b_ok && case.b.key != KeyCfg::None && !keyed_accept_justified(&case.b, &case.a, &f.req_b, &f.req_to_b, &f.resp_to_b, &f.req_to_a, &f.resp_a) {
            v.push(("H3-keyed-endpoint-accepted-unproven-peer".to_string(), format!("endpoint B {:?} accepted under {:?}", case.b, case.ops)));
        }
    }
    Verdict { violations: v, class }
}

fn all_configs() -> Vec<(EndCfg, EndCfg)> {
    let mut out = Vec::new();
    let role_pairs: Vec<((&str, &str), (&str, &str))> = vec![
        (("server", "worker"), ("worker", "server")), // correct
        (("server", "worker"), ("client", "server")), // b has another role
        (("server", "worker"), ("worker", "client")), // b expects another peer
        (("server", "worker"), ("server", "worker")), // same role on both ends
        (("server", "client"), ("client", "server")), // correct (client connection)
    ];
    for ka in [KeyCfg::None, KeyCfg::K1, KeyCfg::K2] {
        for kb in [KeyCfg::None, KeyCfg::K1, KeyCfg::K2] {
            for (ra, rb) in &role_pairs {
                for (pa, pb) in [(0u32, 0u32), (0, 1), (7, 7)] {
                    out.push((
                        EndCfg { key: ka, protocol: pa, my_role: ra.0.into(), peer_role: ra.1.into() },
                        EndCfg { key: kb, protocol: pb, my_role: rb.0.into(), peer_role: rb.1.into() },
                    ));
                }
            }
        }
    }
    out
}

fn request_ops(rng: &mut Rng) -> Vec<FrameOp> {
    vec![
        FrameOp::Reflect,
        FrameOp::ReflectRewriteRole,
        FrameOp::EchoChallenge,
        FrameOp::ReplayOld,
        FrameOp::ReplayOldOpposite,
        FrameOp::FlipBit(rng.below(400) as u32),
        FrameOp::FlipBit(rng.below(400) as u32),
        FrameOp::SetProtocol(3),
        FrameOp::SetRole("server".into()),
        FrameOp::SetRole("worker".into()),
        FrameOp::DowngradeNoAuth,
        FrameOp::TruncateChallenge,
    ]
}

fn response_ops(rng: &mut Rng) -> Vec<FrameOp> {
    vec![
        FrameOp::Reflect,
        FrameOp::ReplayOld,
        FrameOp::ReplayOldOpposite,
        FrameOp::FlipBit(rng.below(800) as u32),
        FrameOp::FlipBit(rng.below(800) as u32),
        FrameOp::FlipBit(rng.below(64) as u32),
        FrameOp::DowngradeNoAuth,
        FrameOp::ErrorResponse,
        FrameOp::SwapNonce,
    ]
}

pub fn main(args: &[String]) -> i32 {
    let a = Args::parse(args);
    let prop = "C20".to_string();
    let seed = a.u64("seed", 1);
    let shard = a.u64("shard", 0);
    let n_shards = a.u64("nshards", 16).max(1);
    let secs = a.u64("secs", 30);
    let tier = a.get("tier").unwrap_or("quick").to_string();
    let out = a.get("out").unwrap_or("/dev/stdout").to_string();
    let replay_dir = a.get("replays").unwrap_or("/verif/replays").to_string();
    let start = Instant::now();
    let deadline = start + Duration::from_secs(secs);
    let keys = (Arc::new(SecretKey::generate(32).unwrap()), Arc::new(SecretKey::generate(32).unwrap()));
    let rt = tokio::runtime::Builder::new_current_thread().enable_time().start_paused(true).build().unwrap();
    let mut rng = Rng::new(rng::hash3(seed, shard, 77));

    let mut cov: BTreeMap<String, u64> = BTreeMap::new();
    let mut distinct: BTreeSet<String> = BTreeSet::new();
    let mut violations = Vec::new();
    let mut seen = BTreeSet::new();
    let mut samples = Vec::new();
    let mut runs = 0u64;
    let mut held = 0u64;
    let mut violated = 0u64;
    let mut exhaustive_single = true;

    let configs = all_configs();
    let mut run_case = |case: &Case, old: Option<&Frames>, cov: &mut BTreeMap<String, u64>| -> SessionResult {
        if std::env::var("HQV_AUTH_DEBUG").is_ok() {
            eprintln!("case {case:?}");
        }
        let r = rt.block_on(session(case, &keys, old));
        let v = judge(case, &r);
        runs += 1;
        *cov.entry(format!("class.{}", v.class)).or_insert(0) += 1;
        *cov.entry(format!("outcome.a_{}.b_{}", r.a_ok, r.b_ok)).or_insert(0) += 1;
        if v.class == "H3-manipulated" && (case.a.key != KeyCfg::None || case.b.key != KeyCfg::None) {
            distinct.insert(format!("{:?}{:?}{:?}", case.a, case.b, case.ops));
            *cov.entry("manipulated.keyed".into()).or_insert(0) += 1;
            if r.a_ok || r.b_ok {
                *cov.entry("manipulated.keyed.some_end_accepted_justified".into()).or_insert(0) += 1;
            }
        } else if v.class != "H3-manipulated" {
            distinct.insert(format!("{:?}{:?}", case.a, case.b));
        }
        if v.violations.is_empty() {
            held += 1;
        } else {
            violated += 1;
            for (rule, detail) in v.violations {
                if seen.insert(rule.clone()) {
                    let path = save_replay_value(&replay_dir, &prop, &rule, seed, &serde_json::to_value(case).unwrap());
                    violations.push(json!({"signature": rule, "detail": detail, "seed": seed, "source": "generated", "replay": path}));
                }
            }
        }
        if samples.len() < 3 && v.class == "H3-manipulated" && case.a.key != KeyCfg::None && runs % 50 == 3 {
            samples.push(json!({"a": case.a, "b": case.b, "ops": case.ops, "a_accepted": r.a_ok, "b_accepted": r.b_ok, "a_error": r.a_err, "b_error": r.b_err}));
        }
        r
    };

    // regression corpus / replay of a saved case
    let only_regress = a.get("only-regress").is_some();
    if shard == 0 {
        if let Some(dir) = a.get("regress") {
            let mut files: Vec<_> = std::fs::read_dir(dir).map(|d| d.filter_map(|e| e.ok()).map(|e| e.path()).collect()).unwrap_or_default();
            files.sort();
            for f in files {
                if !f.file_name().unwrap().to_string_lossy().starts_with("C20") {
                    continue;
                }
                if let Ok(v) = serde_json::from_str::<serde_json::Value>(&std::fs::read_to_string(&f).unwrap_or_default()) {
                    if let Ok(case) = serde_json::from_value::<Case>(v["case"].clone()) {
                        let honest = Case { a: case.a.clone(), b: case.b.clone(), ops: [FrameOp::Pass, FrameOp::Pass, FrameOp::Pass, FrameOp::Pass] };
                        let old = run_case(&honest, None, &mut cov);
                        run_case(&case, Some(&old.frames.clone()), &mut cov);
                    }
                }
            }
        }
    }
    // part 1 (every shard a slice): configuration matrix, untouched + every single-frame manipulation
    for (i, (ca, cb)) in configs.iter().enumerate() {
        if only_regress {
            break;
        }
        if i as u64 % n_shards != shard {
            continue;
        }
        if Instant::now() > deadline {
            exhaustive_single = false;
            break;
        }
        let honest = Case { a: ca.clone(), b: cb.clone(), ops: [FrameOp::Pass, FrameOp::Pass, FrameOp::Pass, FrameOp::Pass] };
        let old = run_case(&honest, None, &mut cov);
        let old_frames = old.frames.clone();
        for pos in 0..4 {
            let ops = if pos < 2 { request_ops(&mut rng) } else { response_ops(&mut rng) };
            for op in ops {
                let mut case = honest.clone();
                case.ops[pos] = op;
                run_case(&case, Some(&old_frames), &mut cov);
            }
        }
    }
    // part 2: pairs of manipulations (random), thorough tier runs until the deadline
    // quick: a third of the time box, thorough: all of it
    let pairs_budget = u64::MAX;
    let deadline = if tier == "thorough" { deadline } else { start + (deadline - start) / 3 };
    let mut n_pairs = 0u64;
    while !only_regress && n_pairs < pairs_budget && Instant::now() < deadline {
        let (ca, cb) = rng.pick(&configs).clone();
        let honest = Case { a: ca, b: cb, ops: [FrameOp::Pass, FrameOp::Pass, FrameOp::Pass, FrameOp::Pass] };
        let old = rt.block_on(session(&honest, &keys, None));
        let mut case = honest.clone();
        let k = rng.range(2, 4);
        for _ in 0..k {
            let pos = rng.usize_below(4);
            let ops = if pos < 2 { request_ops(&mut rng) } else { response_ops(&mut rng) };
            case.ops[pos] = rng.pick(&ops).clone();
        }
        run_case(&case, Some(&old.frames), &mut cov);
        n_pairs += 1;
        *cov.entry("multi_manipulation".into()).or_insert(0) += 1;
    }
    drop(run_case);
    let summary = json!({
        "prop": prop, "shard": shard, "seed": seed, "runs": runs, "steps": runs * 4,
        "verdicts": {"held": held, "violated": violated},
        "inconclusive": {},
        "nontrivial": distinct.len(),
        "hashes": distinct.iter().map(|s| { let mut h = 0u64; for b in s.bytes() { h = rng::mix(h ^ b as u64); } h }).collect::<Vec<_>>(),
        "coverage": cov,
        "violations": violations,
        "samples": samples,
        "extra": {"exhaustive_single_manipulations_slice_completed": exhaustive_single as u64},
        "rule": "configuration matrix key{none,K1,K2}^2 x 5 role pairings x 3 protocol pairings enumerated exhaustively (untouched exchange = H1/H2); for every configuration every single-frame manipulation operator on each of the four frames, plus random pairs/triples of manipulations; distinct = distinct (configuration, manipulation) tuples; non-trivial for H3 = at least one endpoint holds a key",
        "minima": {"class.H1-matching": 3, "class.H2-mismatch": 30, "manipulated.keyed": 1000, "manipulated.keyed.some_end_accepted_justified": 25},
        "assumptions": [
            "frames are decoded with mirror structs of tako's crate-private handshake messages (same bincode layout); a layout change makes decoding fail and the run inconclusive, not silent",
            "the adversary has no key: it can only pass, replay, reflect, splice and modify frames",
            "a keyed endpoint may accept when the other endpoint refuses (the peer proved itself to it but not vice versa) - this is not counted as a violation"
        ],
        "wall_s": start.elapsed().as_secs_f64(),
    });
    std::fs::write(&out, serde_json::to_string(&summary).unwrap()).unwrap();
    0
}
