//! E4 — journal lab (C10, C11, C12).
//!
//! Journals are produced by the real server inside E1 runs and written with the real
//! `JournalWriter`. Every record boundary (and random torn offsets) is restored through the real
//! `StateRestorer` (hook `hyperqueue::server::verif::load_journal`) into a fresh server and
//! compared with a reference fold written here, independent of restore.rs. Pruning goes through
//! the real journal thread (`start_event_streaming` + `PruneJournal`).

use std::collections::{BTreeMap, BTreeSet};
use std::path::{Path, PathBuf};
use std::time::{Duration, Instant};

use hyperqueue::server::event::Event;
use hyperqueue::server::event::journal::{EventStreamMessage, JournalReader, JournalWriter, start_event_streaming};
use hyperqueue::server::event::payload::EventPayload;
use hyperqueue::server::state::StateRef;
use hyperqueue::transfer::messages::{JobTaskDescription, ServerInfo, SubmitRequest};
use serde_json::json;
use tako::server::SchedulerConfig;
use tako::verif::SimServer;
use tako::{Set, WorkerId};

use crate::rng::{self, Rng};
use crate::shard::{Args, save_replay_value};
use crate::sim::conv;
use crate::sim::r#gen::Profile;
use crate::sim::run::{Outcome, Source};
use crate::sim::types::*;
use crate::{panics, run_in_runtime};

/* ------------------------------------- reference fold -------------------------------------- */

#[derive(Clone, Debug, PartialEq, Eq)]
pub struct FTask {
    pub kind: &'static str, // waiting | running | finished | failed | canceled | aborted
    pub running_on: Vec<Wid>,
    pub max_instance: Option<u32>,
    pub crash_strict: u32,
    pub crash_lenient: u32,
    pub deps: Vec<u32>,
    /// index of the record that submitted the task / made it terminal
    pub submit_idx: usize,
    pub terminal_idx: Option<usize>,
}

#[derive(Clone, Debug, Default)]
pub struct FJob {
    pub open: bool,
    pub tasks: BTreeMap<u32, FTask>,
}

#[derive(Clone, Debug, Default)]
pub struct Folded {
    pub jobs: BTreeMap<Jid, FJob>,
    pub jobs_mentioned: BTreeSet<u32>,
    pub workers_mentioned: BTreeSet<u32>,
    pub queues_mentioned: BTreeSet<u32>,
    pub queues: BTreeSet<u32>,
    pub uid: Option<String>,
}

pub fn fold(events: &[Event]) -> Folded {
    let mut f = Folded::default();
    let terminal = |f: &mut Folded, t: &tako::TaskId, kind: &'static str, idx: usize| {
        let (j, id) = conv::tid(*t);
        f.jobs_mentioned.insert(j);
        if let Some(job) = f.jobs.get_mut(&j) {
            // a record may name a task before any other record about it
            let task = job.tasks.entry(id).or_insert_with(|| FTask {
                kind: "waiting",
                running_on: vec![],
                max_instance: None,
                crash_strict: 0,
                crash_lenient: 0,
                deps: vec![],
                submit_idx: 0,
                terminal_idx: None,
            });
            task.kind = kind;
            task.terminal_idx = Some(idx);
            task.running_on.clear();
        }
    };
    for (idx, e) in events.iter().enumerate() {
        match &e.payload {
            EventPayload::WorkerConnected(w, _) => {
                f.workers_mentioned.insert(w.as_num());
            }
            EventPayload::WorkerLost(w, reason) => {
                f.workers_mentioned.insert(w.as_num());
                let w = w.as_num();
                for job in f.jobs.values_mut() {
                    for t in job.tasks.values_mut() {
                        if t.kind == "running" && t.running_on.contains(&w) {
                            let root = t.running_on.first() == Some(&w);
                            if reason.is_failure() {
                                t.crash_lenient += 1;
                                if root {
                                    t.crash_strict += 1;
                                }
                            }
                            if root {
                                t.kind = "waiting";
                                t.running_on.clear();
                            }
                        }
                    }
                }
            }
            EventPayload::Submit { job_id, closed_job, serialized_desc } => {
                let j = job_id.as_num();
                f.jobs_mentioned.insert(j);
                let Ok(req): Result<SubmitRequest, _> = serialized_desc.deserialize() else { continue };
                if *closed_job {
                    f.jobs.insert(j, FJob { open: false, tasks: BTreeMap::new() });
                }
                let Some(job) = f.jobs.get_mut(&j) else { continue };
                let mut add = |id: u32, deps: Vec<u32>| {
                    let t = job.tasks.entry(id).or_insert(FTask {
                        kind: "waiting",
                        running_on: vec![],
                        max_instance: None,
                        crash_strict: 0,
                        crash_lenient: 0,
                        deps: vec![],
                        submit_idx: idx,
                        terminal_idx: None,
                    });
                    t.deps = deps;
                    t.submit_idx = idx;
                };
                match &req.submit_desc.task_desc {
                    JobTaskDescription::Array { ids, .. } => {
                        for id in ids.iter() {
                            add(id, vec![]);
                        }
                    }
                    JobTaskDescription::Graph { tasks, .. } => {
                        for t in tasks {
                            let mut deps: Vec<u32> = t.task_deps.iter().map(|d| d.as_num()).collect();
                            deps.sort_unstable();
                            deps.dedup();
                            add(t.id.as_num(), deps);
                        }
                    }
                }
            }
            EventPayload::JobCompleted(j) => {
                f.jobs_mentioned.insert(j.as_num());
                f.jobs.remove(&j.as_num());
            }
            EventPayload::JobOpen(j, _) => {
                f.jobs_mentioned.insert(j.as_num());
                f.jobs.insert(j.as_num(), FJob { open: true, tasks: BTreeMap::new() });
            }
            EventPayload::JobClose(j) => {
                f.jobs_mentioned.insert(j.as_num());
                if let Some(job) = f.jobs.get_mut(&j.as_num()) {
                    job.open = false;
                }
            }
            EventPayload::JobCancel { job_id, .. } => {
                f.jobs_mentioned.insert(job_id.as_num());
            }
            EventPayload::TaskStarted { task_id, instance_id, worker_ids, .. } => {
                let (j, id) = conv::tid(*task_id);
                f.jobs_mentioned.insert(j);
                for w in worker_ids {
                    f.workers_mentioned.insert(w.as_num());
                }
                if let Some(t) = f.jobs.get_mut(&j).and_then(|job| job.tasks.get_mut(&id)) {
                    t.kind = "running";
                    t.running_on = worker_ids.iter().map(|w| w.as_num()).collect();
                    t.max_instance = Some(t.max_instance.unwrap_or(0).max(instance_id.as_num()));
                }
            }
            EventPayload::TaskFinished { task_id } => terminal(&mut f, task_id, "finished", idx),
            EventPayload::TaskFailed { task_id, .. } => terminal(&mut f, task_id, "failed", idx),
            EventPayload::TasksCanceled { task_ids } => {
                for t in task_ids {
                    terminal(&mut f, t, "canceled", idx);
                }
            }
            EventPayload::TasksAborted { task_ids } => {
                for t in task_ids {
                    terminal(&mut f, t, "aborted", idx);
                }
            }
            EventPayload::AllocationQueueCreated(q, _) => {
                f.queues_mentioned.insert(*q);
                f.queues.insert(*q);
            }
            EventPayload::AllocationQueueRemoved(q) => {
                f.queues_mentioned.insert(*q);
                f.queues.remove(q);
            }
            EventPayload::AllocationQueued { queue_id, .. } => {
                f.queues_mentioned.insert(*queue_id);
            }
            EventPayload::AllocationStarted(q, _) | EventPayload::AllocationFinished(q, _) => {
                f.queues_mentioned.insert(*q);
            }
            EventPayload::ServerStart { server_uid } => f.uid = Some(server_uid.clone()),
            _ => {}
        }
    }
    f
}

/* ------------------------------------- restore through the real code ------------------------ */

#[derive(Clone, Debug)]
pub struct Restored {
    pub jobs: Vec<JobLite>,
    pub tasks: Vec<(Tid, Vec<Tid>, u32, u32)>, // (task, deps, instance, crash counter) handed to the core
    pub job_id_counter: u32,
    pub worker_id_counter: u32,
    pub queue_id_counter: u32,
    pub truncate: Option<u64>,
    pub uid: String,
    pub queues: Vec<u32>,
    /// queues restored with known worker resources
    pub queues_with_worker_resources: Vec<u32>,
    /// what the real core holds after it was given the tasks: task -> (dependencies, unfinished ones)
    pub core_deps: BTreeMap<Tid, (Vec<Tid>, u32)>,
}

pub fn restore_file(path: &Path) -> Result<Restored, String> {
    let _ = panics::take();
    let r = std::panic::catch_unwind(std::panic::AssertUnwindSafe(|| -> Result<Restored, String> {
        let loaded = hyperqueue::server::verif::load_journal(path).map_err(|e| format!("load error: {e:?}"))?;
        let server = SimServer::new(
            loaded.server_uid().to_string(),
            loaded.worker_id_counter(),
            SchedulerConfig::default(),
            None,
        );
        let state_ref = StateRef::new(ServerInfo {
            server_uid: loaded.server_uid().to_string(),
            client_host: "h".into(),
            worker_host: "h".into(),
            client_port: 1,
            worker_port: 2,
            version: "hqv".into(),
            pid: 0,
            start_date: chrono::Utc::now(),
            journal_path: None,
        });
        let out = loaded.restore(&state_ref, &server.server_ref()).map_err(|e| format!("restore error: {e:?}"))?;
        let state = state_ref.get();
        let mut jobs: Vec<JobLite> = state
            .jobs()
            .map(|job| {
                let mut tasks: Vec<(u32, TaskStateLite)> = job.iter_task_states().map(|(id, st)| (id.as_num(), conv::task_state_lite(st))).collect();
                tasks.sort_by_key(|t| t.0);
                JobLite {
                    id: job.job_id.as_num(),
                    n_tasks: job.n_tasks(),
                    counters: conv::counters_lite(&job.counters),
                    is_open: job.is_open(),
                    max_fails: job.job_desc.max_fails,
                    tasks,
                    completed: job.completion_date.is_some(),
                    status: String::new(),
                }
            })
            .collect();
        jobs.sort_by_key(|j| j.id);
        let mut tasks = Vec::new();
        for ts in &out.task_submits {
            for t in &ts.tasks {
                let adj = ts.adjust_instance_id_and_crash_counters.get(&t.id);
                let mut deps: Vec<Tid> = t.task_deps.iter().map(|d| conv::tid(*d)).collect();
                deps.sort_unstable();
                tasks.push((conv::tid(t.id), deps, adj.map(|a| a.0.as_num()).unwrap_or(0), adj.map(|a| a.1).unwrap_or(0)));
            }
        }
        tasks.sort();
        // the tasks must also be accepted by the core (as start_server does with unwrap())
        for ts in out.task_submits {
            server.server_ref().add_new_tasks(ts).map_err(|e| format!("add_new_tasks error: {e:?}"))?;
        }
        let core_deps: BTreeMap<Tid, (Vec<Tid>, u32)> = server
            .snapshot()
            .tasks
            .iter()
            .map(|t| {
                let mut deps: Vec<Tid> = t.deps.iter().map(|d| conv::tid(*d)).collect();
                deps.sort_unstable();
                let unfinished = match t.state {
                    tako::verif::TaskStateSnapshot::Waiting { unfinished_deps } => unfinished_deps,
                    _ => u32::MAX,
                };
                (conv::tid(t.id), (deps, unfinished))
            })
            .collect();
        let mut queues: Vec<u32> = out.queues.iter().map(|q| q.queue_id).collect();
        queues.sort_unstable();
        let mut queues_with_worker_resources: Vec<u32> = out.queues.iter().filter(|q| q.worker_resources.is_some()).map(|q| q.queue_id).collect();
        queues_with_worker_resources.sort_unstable();
        Ok(Restored {
            jobs,
            tasks,
            job_id_counter: out.job_id_counter,
            worker_id_counter: out.worker_id_counter.as_num(),
            queue_id_counter: out.queue_id_counter,
            truncate: out.truncate_size,
            uid: out.server_uid,
            queues,
            queues_with_worker_resources,
            core_deps,
        })
    }));
    match r {
        Ok(x) => x,
        Err(_) => {
            let p = panics::take();
            Err(format!(
                "panic: {}",
                p.first().map(panics::signature).unwrap_or_else(|| "unknown".into())
            ))
        }
    }
}

/* ------------------------------------- comparisons ------------------------------------------ */

pub struct Rep {
    pub violations: Vec<(String, String, String)>,
    pub cov: BTreeMap<String, u64>,
}

impl Rep {
    fn new() -> Rep {
        Rep { violations: vec![], cov: BTreeMap::new() }
    }
    fn v(&mut self, prop: &str, rule: &str, detail: String) {
        if !self.violations.iter().any(|x| x.0 == prop && x.1 == rule) {
            self.violations.push((prop.into(), rule.into(), detail));
        }
    }
    fn c(&mut self, k: &str, n: u64) {
        *self.cov.entry(k.to_string()).or_insert(0) += n;
    }
}

fn check_against_fold(cut: usize, f: &Folded, r: &Restored, rep: &mut Rep) {
    // J2: jobs, open flag, task sets, task outcomes, counters
    let restored_ids: BTreeSet<u32> = r.jobs.iter().map(|j| j.id).collect();
    let fold_ids: BTreeSet<u32> = f.jobs.keys().copied().collect();
    if restored_ids != fold_ids {
        rep.v("C10", "J2-unfinished-jobs", format!("cut {cut}: journal prefix has unfinished jobs {fold_ids:?}, restored {restored_ids:?}"));
        return;
    }
    let mut pending: BTreeMap<Tid, &FTask> = BTreeMap::new();
    for j in &r.jobs {
        let fj = &f.jobs[&j.id];
        if j.is_open != fj.open {
            rep.v("C10", "J2-open-flag", format!("cut {cut}: job {} open={} in the journal, restored open={}", j.id, fj.open, j.is_open));
        }
        let ids: BTreeSet<u32> = j.tasks.iter().map(|t| t.0).collect();
        let fids: BTreeSet<u32> = fj.tasks.keys().copied().collect();
        if ids != fids {
            rep.v("C10", "J2-task-set", format!("cut {cut}: job {}: journal tasks {fids:?}, restored {ids:?}", j.id));
            continue;
        }
        let mut c = CountersLite::default();
        for (id, st) in &j.tasks {
            let ft = &fj.tasks[id];
            let expect = match ft.kind {
                "running" => "waiting",
                k => k,
            };
            if st.kind() != expect {
                rep.v("C10", "J2-task-outcome", format!("cut {cut}: task {:?}: journal says {}, restored as {}", (j.id, id), ft.kind, st.kind()));
            }
            match st {
                TaskStateLite::Running { .. } => c.running += 1,
                TaskStateLite::Finished => c.finished += 1,
                TaskStateLite::Failed { .. } => c.failed += 1,
                TaskStateLite::Canceled => c.canceled += 1,
                TaskStateLite::Aborted => c.aborted += 1,
                TaskStateLite::Waiting => {}
            }
            if matches!(expect, "waiting") {
                pending.insert((j.id, *id), ft);
            }
        }
        if c != j.counters || j.n_tasks as usize != j.tasks.len() {
            rep.v("C10", "J2-counters", format!("cut {cut}: job {}: restored counters {:?} (n_tasks {}) but restored task states give {:?} of {}", j.id, j.counters, j.n_tasks, c, j.tasks.len()));
        }
        if j.tasks.len() > 1 && fj.tasks.values().any(|t| t.kind != "waiting") {
            rep.c("jobs_with_progress_restored", 1);
        }
    }
    // J3: exactly the pending tasks go to the core, with remaining dependencies, higher instance, crash count
    let handed: BTreeMap<Tid, &(Tid, Vec<Tid>, u32, u32)> = r.tasks.iter().map(|t| (t.0, t)).collect();
    if handed.len() != r.tasks.len() {
        rep.v("C10", "J3-task-handed-twice", format!("cut {cut}: a task is handed to the scheduler twice"));
    }
    let hk: BTreeSet<Tid> = handed.keys().copied().collect();
    let pk: BTreeSet<Tid> = pending.keys().copied().collect();
    if hk != pk {
        let missing: Vec<_> = pk.difference(&hk).take(5).collect();
        let extra: Vec<_> = hk.difference(&pk).take(5).collect();
        rep.v("C10", "J3-pending-set", format!("cut {cut}: pending by the journal but not handed to the scheduler {missing:?}; handed although not pending {extra:?}"));
        return;
    }
    // C03-D4: a pending task must not depend on a task recorded failed/canceled/aborted
    for (t, ft) in &pending {
        for d in &ft.deps {
            if let Some(dt) = f.jobs.get(&t.0).and_then(|j| j.tasks.get(d)) {
                if matches!(dt.kind, "failed" | "canceled" | "aborted") {
                    if ft.submit_idx > dt.terminal_idx.unwrap_or(0) {
                        rep.v("C03", "D2-late-dependent-of-failed-task-runs", format!("cut {cut}: task {t:?} was submitted after its dependency {:?} had ended {}, and is restored as runnable", (t.0, d), dt.kind));
                    } else {
                        rep.v("C03", "D4-dependent-of-failed-task-runnable-after-restart", format!("cut {cut}: dependency {:?} of {t:?} is recorded {}, but {t:?} is restored as a runnable task", (t.0, d), dt.kind));
                        rep.v("C10", "J3-pending-task-with-failed-dependency", format!("cut {cut}: dependency {:?} of {t:?} is recorded {}, but {t:?} is restored as a runnable task", (t.0, d), dt.kind));
                    }
                }
            }
        }
    }
    for (t, ft) in &pending {
        let h = handed[t];
        let want_deps: Vec<Tid> = ft.deps.iter().map(|d| (t.0, *d)).filter(|d| pending.contains_key(d)).collect();
        if h.1 != want_deps {
            rep.v("C10", "J3-dependencies", format!("cut {cut}: task {t:?}: remaining dependencies should be {want_deps:?}, handed {:?}", h.1));
        }
        // ... and the scheduler must really wait for them (it forgets a dependency on a task it
        // has not been given yet, so the order of the hand-over matters)
        match r.core_deps.get(t) {
            Some((deps, unfinished)) => {
                if !want_deps.is_empty() {
                    rep.c("pending_tasks_with_deps_checked_in_the_core", 1);
                }
                if deps != &want_deps || *unfinished != want_deps.len() as u32 {
                    rep.v(
                        "C10",
                        "J3-scheduler-lost-dependencies",
                        format!("cut {cut}: task {t:?} should wait for {want_deps:?}; after the hand-over the scheduler holds {deps:?} for it and counts {unfinished} unfinished"),
                    );
                }
            }
            None => rep.v("C10", "J3-scheduler-lost-dependencies", format!("cut {cut}: task {t:?} was handed over but the scheduler does not know it")),
        }
        if !ft.deps.is_empty() {
            rep.c("pending_tasks_with_deps", 1);
        }
        if let Some(m) = ft.max_instance {
            rep.c("pending_tasks_started_before", 1);
            if h.2 <= m {
                rep.v("C10", "J3-instance-id", format!("cut {cut}: task {t:?}: journal holds instance {m}, restored with {}", h.2));
                rep.v("C06", "X3-instance-not-increasing-across-restart", format!("cut {cut}: task {t:?}: journal holds instance {m}, restored with {}", h.2));
            }
        }
        if ft.crash_strict > 0 {
            rep.c("pending_tasks_with_crashes", 1);
        }
        if h.3 != ft.crash_strict && h.3 != ft.crash_lenient {
            rep.v(
                "C10",
                "J3-crash-count",
                format!("cut {cut}: task {t:?}: journal holds {} failure-type losses while running, restored crash counter {}", ft.crash_strict, h.3),
            );
            rep.v(
                "C07",
                "L5-crash-count-lost-in-restart",
                format!("cut {cut}: task {t:?}: journal holds {} failure-type losses while running, restored crash counter {}", ft.crash_strict, h.3),
            );
        }
    }
    rep.c("pending_tasks_checked", pending.len() as u64);
    // C11: counters exceed everything mentioned
    let mj = f.jobs_mentioned.iter().max().copied().unwrap_or(0);
    if r.job_id_counter <= mj {
        rep.v("C11", "I1-job-id-reuse", format!("cut {cut}: the journal mentions job {mj}, the next job id will be {}", r.job_id_counter));
    }
    let mw = f.workers_mentioned.iter().max().copied().unwrap_or(0);
    // Core::new_worker_id increments before use: next id = counter + 1
    if r.worker_id_counter + 1 <= mw {
        rep.v("C11", "I2-worker-id-reuse", format!("cut {cut}: the journal mentions worker {mw}, the next worker id will be {}", r.worker_id_counter + 1));
    }
    let mq = f.queues_mentioned.iter().max().copied().unwrap_or(0);
    if r.queue_id_counter <= mq {
        rep.v("C11", "I3-queue-id-reuse", format!("cut {cut}: the journal mentions queue {mq}, the next queue id will be {}", r.queue_id_counter));
    }
    if let Some(uid) = &f.uid {
        if &r.uid != uid {
            rep.v("C11", "I4-server-uid", format!("cut {cut}: journal uid {uid}, restored {}", r.uid));
        }
    }
    let rq: BTreeSet<u32> = r.queues.iter().copied().collect();
    if rq != f.queues {
        rep.v("C10", "J2-queues", format!("cut {cut}: journal has queues {:?}, restored {:?}", f.queues, rq));
    }
    if mj > 0 && !f.jobs.contains_key(&mj) {
        rep.c("cuts_highest_job_gone", 1);
    }
    rep.c("cuts_compared", 1);
}

fn summary_eq(a: &Restored, b: &Restored) -> Option<String> {
    if a.jobs != b.jobs {
        let ja: Vec<_> = a.jobs.iter().map(|j| (j.id, j.is_open, j.counters.clone())).collect();
        let jb: Vec<_> = b.jobs.iter().map(|j| (j.id, j.is_open, j.counters.clone())).collect();
        return Some(format!("jobs differ: {ja:?} vs {jb:?}"));
    }
    if a.tasks != b.tasks {
        let d: Vec<_> = a.tasks.iter().zip(b.tasks.iter()).filter(|(x, y)| x != y).take(3).collect();
        return Some(format!("pending tasks (task, deps, instance, crash count) differ: {d:?} (counts {} vs {})", a.tasks.len(), b.tasks.len()));
    }
    if a.queues != b.queues {
        return Some(format!("queues differ: {:?} vs {:?}", a.queues, b.queues));
    }
    if a.queues_with_worker_resources != b.queues_with_worker_resources {
        return Some(format!("queue worker resources differ: queues restored with known worker resources {:?} vs {:?}", a.queues_with_worker_resources, b.queues_with_worker_resources));
    }
    None
}

/* ------------------------------------- file helpers ----------------------------------------- */

fn write_journal(path: &Path, events: &[Event]) -> anyhow::Result<Vec<u64>> {
    let _ = std::fs::remove_file(path);
    let mut w = JournalWriter::create(path)?;
    for e in events {
        w.store(e.clone())?;
    }
    w.finish()?;
    // record boundaries: bounds[k] = length of the file holding exactly k records
    let mut reader = JournalReader::open(path)?;
    let mut bounds = Vec::with_capacity(events.len() + 1);
    loop {
        let mut it = &mut reader;
        let r = it.next();
        bounds.push(reader.position());
        match r {
            Some(Ok(_)) => {}
            Some(Err(e)) => return Err(e),
            None => break,
        }
    }
    Ok(bounds)
}

fn copy_truncated(src: &Path, dst: &Path, len: u64) -> std::io::Result<()> {
    std::fs::copy(src, dst)?;
    let f = std::fs::OpenOptions::new().write(true).open(dst)?;
    f.set_len(len)?;
    Ok(())
}

pub fn read_all(path: &Path) -> Result<Vec<Event>, String> {
    let mut reader = JournalReader::open(path).map_err(|e| format!("{e:?}"))?;
    let mut out = Vec::new();
    for e in &mut reader {
        out.push(e.map_err(|e| format!("{e:?}"))?);
    }
    if reader.contains_partial_data() {
        return Err("partial data".into());
    }
    Ok(out)
}

/* ------------------------------------- one journal ------------------------------------------ */

/// Inserts allocation-queue, allocation and allocation-worker records at random positions
/// (deterministic in `seed`). Prune points are record indices: they are shifted by the records
/// inserted before them, and a spliced worker that is connected at the moment of a prune request
/// is added to the live workers of that request (the real server would list it).
pub fn splice_queue_records(events: &[Event], prune_points: &[(usize, Vec<u32>, Vec<u32>)], seed: u64, rep: &mut Rep) -> (Vec<Event>, Vec<(usize, Vec<u32>, Vec<u32>)>) {
    let mut rng = Rng::new(seed);
    if events.len() < 3 || rng.chance(30, 100) {
        return (events.to_vec(), prune_points.to_vec());
    }
    // 1. the records, in the order in which they will appear
    let mut planned: Vec<EventPayload> = Vec::new();
    let mut next_queue = 1u32;
    let mut live: Vec<u32> = Vec::new();
    let mut allocs: Vec<(u32, String)> = Vec::new();
    let mut alloc_workers: Vec<u32> = Vec::new();
    let mut next_alloc_worker = 5000u32;
    let n = rng.range(1, 14) as usize;
    let new_queue = |live: &mut Vec<u32>, next_queue: &mut u32| {
        let id = *next_queue;
        *next_queue += 1;
        live.push(id);
        EventPayload::AllocationQueueCreated(id, Box::new(crate::queueids::params(id)))
    };
    while planned.len() < n {
        let payload = match rng.below(10) {
            0 | 1 => new_queue(&mut live, &mut next_queue),
            2 if !live.is_empty() => {
                let id = live.remove(rng.usize_below(live.len()));
                EventPayload::AllocationQueueRemoved(id)
            }
            3 | 4 if !live.is_empty() => {
                let q = *rng.pick(&live);
                let a = format!("a{}", allocs.len() + 1);
                allocs.push((q, a.clone()));
                EventPayload::AllocationQueued { queue_id: q, allocation_id: a, worker_count: 1 }
            }
            5 if !allocs.is_empty() => {
                let (q, a) = rng.pick(&allocs).clone();
                if rng.chance(60, 100) { EventPayload::AllocationStarted(q, a) } else { EventPayload::AllocationFinished(q, a) }
            }
            6 | 7 if !allocs.is_empty() => {
                // a worker started by an allocation connects: the queue learns its workers' resources
                let (_q, a) = rng.pick(&allocs).clone();
                next_alloc_worker += 1;
                alloc_workers.push(next_alloc_worker);
                let mut cfg = conv::worker_configuration(&WorkerSpec { resources: vec![ResSpec { name: "cpus".into(), kind: ResKind::Range(8) }], group: "alloc".into(), time_limit_s: None }, next_alloc_worker);
                let info = hyperqueue::common::manager::info::ManagerInfo { manager: hyperqueue::common::manager::info::ManagerType::Slurm, allocation_id: a, time_limit: Some(Duration::from_secs(3600)), max_memory_mb: None };
                cfg.extra.insert(hyperqueue::common::manager::info::WORKER_EXTRA_MANAGER_KEY.to_string(), serde_json::to_string(&info).unwrap());
                rep.c("allocation_workers_spliced", 1);
                EventPayload::WorkerConnected(next_alloc_worker.into(), Box::new(cfg))
            }
            8 | 9 if !alloc_workers.is_empty() => {
                // ... and is gone later (then it is not among the live workers of later prune requests)
                let w = alloc_workers.remove(rng.usize_below(alloc_workers.len()));
                rep.c("allocation_workers_lost", 1);
                EventPayload::WorkerLost(w.into(), tako::gateway::LostWorkerReason::Stopped)
            }
            _ if live.is_empty() => new_queue(&mut live, &mut next_queue),
            _ => {
                let q = *rng.pick(&live);
                let a = format!("a{}", allocs.len() + 1);
                allocs.push((q, a.clone()));
                EventPayload::AllocationQueued { queue_id: q, allocation_id: a, worker_count: 1 }
            }
        };
        planned.push(payload);
    }
    // 2. their positions (after the first record, which is ServerStart), ascending
    // (biased towards the first part of the journal, so that prune requests see complete lifecycles)
    let hi = if rng.chance(60, 100) { (events.len() * 5 / 10).max(2) } else { events.len() };
    let mut positions: Vec<usize> = (0..planned.len()).map(|_| rng.range(1, hi as u64) as usize).collect();
    positions.sort_unstable();
    let mut out: Vec<Event> = Vec::with_capacity(events.len() + planned.len());
    let mut inserted_before: Vec<usize> = vec![0; events.len() + 1];
    // (worker, index in the new journal of its connect record, index of its loss record)
    let mut life: Vec<(u32, usize, Option<usize>)> = Vec::new();
    let mut k = 0usize;
    let mut planned = planned.into_iter();
    for (i, e) in events.iter().enumerate() {
        while k < positions.len() && positions[k] == i {
            k += 1;
            let payload = planned.next().unwrap();
            match &payload {
                EventPayload::WorkerConnected(w, _) => life.push((w.as_num(), out.len(), None)),
                EventPayload::WorkerLost(w, _) => {
                    if let Some(l) = life.iter_mut().find(|l| l.0 == w.as_num()) {
                        l.2 = Some(out.len());
                    }
                }
                _ => {}
            }
            out.push(Event::at(e.time, payload));
            rep.c("queue_records_spliced", 1);
        }
        inserted_before[i] = k;
        out.push(e.clone());
    }
    inserted_before[events.len()] = k;
    let pp = prune_points
        .iter()
        .map(|(len, j, w)| {
            let new_len = len + inserted_before[(*len).min(events.len())];
            let mut w = w.clone();
            for (wid, c, l) in &life {
                if *c < new_len && l.map(|l| l >= new_len).unwrap_or(true) {
                    w.push(*wid);
                }
            }
            (new_len, j.clone(), w)
        })
        .collect();
    if k > 0 {
        rep.c("journals_with_queue_records", 1);
    }
    (out, pp)
}

pub fn check_journal(events: &[Event], prune_points: &[(usize, Vec<u32>, Vec<u32>)], dir: &Path, rng: &mut Rng, n_torn: u64, rep: &mut Rep) {
    let full = dir.join("full.journal");
    let Ok(bounds) = write_journal(&full, events) else {
        rep.v("C10", "H-harness", "cannot write journal".into());
        return;
    };
    if bounds.len() != events.len() + 1 {
        rep.v("C10", "J0-journal-does-not-read-back", format!("{} records written, {} boundaries read", events.len(), bounds.len()));
        return;
    }
    let cutf = dir.join("cut.journal");
    let mut restored_at: BTreeMap<usize, Restored> = BTreeMap::new();
    for k in 0..=events.len() {
        if copy_truncated(&full, &cutf, bounds[k]).is_err() {
            continue;
        }
        match restore_file(&cutf) {
            Err(msg) => {
                rep.v("C10", &format!("J1-restart-fails:{}", msg.chars().take(140).collect::<String>()), format!("cut after {k} of {} records: {msg}", events.len()));
            }
            Ok(r) => {
                if r.truncate.is_some() {
                    rep.v("C10", "J5-complete-journal-reported-torn", format!("cut {k}: truncate_size {:?} on a journal that ends at a record boundary", r.truncate));
                }
                let f = fold(&events[..k]);
                check_against_fold(k, &f, &r, rep);
                restored_at.insert(k, r);
            }
        }
    }
    // J5: torn tails
    for _ in 0..n_torn {
        if events.is_empty() {
            break;
        }
        let k = rng.usize_below(events.len());
        let len = bounds[k + 1] - bounds[k];
        if len < 2 {
            continue;
        }
        let off = bounds[k] + 1 + rng.below(len - 1);
        if copy_truncated(&full, &cutf, off).is_err() {
            continue;
        }
        rep.c("torn_tails", 1);
        match restore_file(&cutf) {
            Err(msg) => rep.v("C10", &format!("J5-torn-journal-rejected:{}", msg.chars().take(100).collect::<String>()), format!("journal cut at byte {off} (inside record {k}): {msg}")),
            Ok(r) => {
                if r.truncate != Some(bounds[k]) {
                    rep.v("C10", "J5-truncate-size", format!("journal cut at byte {off} inside record {k} (boundary {}): truncate_size {:?}", bounds[k], r.truncate));
                }
                if let Some(clean) = restored_at.get(&k) {
                    if let Some(d) = summary_eq(clean, &r) {
                        rep.v("C10", "J5-torn-differs-from-clean-prefix", format!("journal cut at byte {off} inside record {k}: {d}"));
                    }
                }
                // append after truncation and re-read
                if let Some(t) = r.truncate {
                    if let Ok(mut w) = JournalWriter::create_or_append(&cutf, Some(t)) {
                        let extra = Event::at(chrono::Utc::now(), EventPayload::ServerStop);
                        let _ = w.store(extra);
                        let _ = w.finish();
                        match read_all(&cutf) {
                            Ok(evs) if evs.len() == k + 1 => {}
                            Ok(evs) => rep.v("C10", "J5-append-after-truncate", format!("after truncating at record {k} and appending one record the journal holds {} records", evs.len())),
                            Err(e) => rep.v("C10", "J5-append-after-truncate", format!("journal unreadable after truncate+append: {e}")),
                        }
                    }
                }
            }
        }
    }
    // C12: prune through the real journal thread - at the moments of the real prune requests of the
    // run (live sets computed by the real handler) and at two further record boundaries with the
    // live sets the handler would compute there: connected workers, and the jobs that are still in
    // the server's memory (all unfinished ones; completed ones only if they were not forgotten,
    // which the journal does not record - both choices are valid histories)
    let mut prune_points: Vec<(usize, Vec<u32>, Vec<u32>)> = prune_points.iter().take(3).cloned().collect();
    if events.len() > 6 {
        for _ in 0..2 {
            let idx = rng.range(3, events.len() as u64) as usize;
            let keep_completed = rng.chance(40, 100);
            let mut workers: BTreeSet<u32> = BTreeSet::new();
            let mut jobs: BTreeSet<u32> = BTreeSet::new();
            for e in &events[..idx] {
                match &e.payload {
                    EventPayload::WorkerConnected(w, _) => {
                        workers.insert(w.as_num());
                    }
                    EventPayload::WorkerLost(w, _) => {
                        workers.remove(&w.as_num());
                    }
                    EventPayload::Submit { job_id, .. } | EventPayload::JobOpen(job_id, _) => {
                        jobs.insert(job_id.as_num());
                    }
                    EventPayload::JobCompleted(job_id) if !keep_completed => {
                        jobs.remove(&job_id.as_num());
                    }
                    _ => {}
                }
            }
            prune_points.push((idx, jobs.into_iter().collect(), workers.into_iter().collect()));
            rep.c("prunes_at_lab_chosen_moments", 1);
        }
    }
    for (idx, live_jobs, live_workers) in prune_points.iter() {
        let idx = (*idx).min(events.len());
        let pf = dir.join("pruned.journal");
        // the last m records before the prune request are still in the journal thread's write
        // buffer when the request arrives (the thread flushes only periodically)
        let m = if rng.chance(60, 100) { rng.usize_below(idx.min(8) + 1) } else { 0 };
        if copy_truncated(&full, &pf, bounds[idx - m]).is_err() {
            continue;
        }
        if m > 0 {
            rep.c("prunes_with_unflushed_records", 1);
        }
        {
            // does the prefix contain an allocation worker that connected and is gone again?
            let mut connected: BTreeSet<u32> = BTreeSet::new();
            let mut gone = false;
            for e in &events[..idx] {
                match &e.payload {
                    EventPayload::WorkerConnected(w, c) if hyperqueue::common::manager::info::GetManagerInfo::get_manager_info(&**c).is_some() => {
                        connected.insert(w.as_num());
                    }
                    EventPayload::WorkerLost(w, _) if connected.contains(&w.as_num()) => gone = true,
                    _ => {}
                }
            }
            if gone {
                rep.c("prunes_after_allocation_worker_loss", 1);
            }
        }
        // an earlier prune may have been interrupted (server killed between creating
        // `<journal>.tmp` and the rename): the stale file - here a prefix of the journal, cut at a
        // record boundary or inside a record - must not leak into the next prune
        {
            let mut tmp_path: std::ffi::OsString = pf.clone().into();
            tmp_path.push(".tmp");
            let tmp_path = PathBuf::from(tmp_path);
            let _ = std::fs::remove_file(&tmp_path);
            if rng.chance(30, 100) && idx > 2 {
                let k = rng.range(1, idx as u64 - 1) as usize;
                let len = if rng.chance(50, 100) { bounds[k] } else { bounds[k] + rng.below((bounds[k + 1] - bounds[k]).max(1)) };
                if copy_truncated(&full, &tmp_path, len).is_ok() {
                    rep.c("prunes_with_stale_tmp_file", 1);
                }
            }
        }
        let buffered: Vec<Event> = events[idx - m..idx].to_vec();
        let appended: Vec<Event> = events[idx..].iter().take(rng.usize_below(12) + 1).cloned().collect();
        match prune_via_thread(&pf, &buffered, live_jobs, live_workers, &appended, rng.chance(30, 100)) {
            Err(e) => {
                rep.v("C12", "U0-prune-failed", format!("prune at record {idx}: {e}"));
                continue;
            }
            Ok(()) => {}
        }
        rep.c("prunes", 1);
        // the pruned file must be a well-formed journal holding the appended records at its end
        match read_all(&pf) {
            Err(e) => {
                rep.v("C12", "U1-pruned-journal-malformed", format!("prune at record {idx}: {e}"));
                continue;
            }
            Ok(evs) => {
                // C11 on the pruned journal: ids that it still mentions must not be issued again
                if let Ok(r) = restore_file(&pf) {
                    let f = fold(&evs);
                    let mw = f.workers_mentioned.iter().max().copied().unwrap_or(0);
                    if r.worker_id_counter + 1 <= mw {
                        rep.v("C11", "I2-worker-id-reuse-after-prune", format!("pruned journal (prune at record {idx}) still mentions worker {mw}; after a restart the next worker id will be {}", r.worker_id_counter + 1));
                    }
                    let mj = f.jobs_mentioned.iter().max().copied().unwrap_or(0);
                    if r.job_id_counter <= mj {
                        rep.v("C11", "I1-job-id-reuse-after-prune", format!("pruned journal (prune at record {idx}) still mentions job {mj}; after a restart the next job id will be {}", r.job_id_counter));
                    }
                    rep.c("pruned_journals_id_checked", 1);
                    // how often does a pruned journal name a worker only in a TaskStarted record?
                    let connected: BTreeSet<u32> = evs.iter().filter_map(|e| match &e.payload {
                        EventPayload::WorkerConnected(w, _) => Some(w.as_num()),
                        _ => None,
                    }).collect();
                    for e in &evs {
                        if let EventPayload::TaskStarted { worker_ids: workers, .. } = &e.payload {
                            if workers.iter().any(|w| !connected.contains(&w.as_num())) {
                                rep.c("pruned_journals.task_started_names_pruned_worker", 1);
                                if workers.len() > 1 {
                                    rep.c("pruned_journals.multinode_task_started_names_pruned_worker", 1);
                                }
                                break;
                            }
                        }
                    }
                }
                if evs.len() < appended.len() {
                    rep.v("C12", "U1-appended-records-missing", format!("prune at record {idx}: {} records after prune+append of {}", evs.len(), appended.len()));
                }
                if evs.len() < idx + appended.len() {
                    rep.c("prunes_that_removed_records", 1);
                }
            }
        }
        // unpruned reference: the same records without pruning
        let uf = dir.join("unpruned.journal");
        let mut reference: Vec<Event> = events[..idx].to_vec();
        reference.extend(appended.iter().cloned());
        if write_journal(&uf, &reference).is_err() {
            continue;
        }
        match (restore_file(&uf), restore_file(&pf)) {
            (Ok(a), Ok(b)) => {
                if let Some(d) = summary_eq(&a, &b) {
                    rep.v("C12", &format!("U2-restore-differs-after-prune:{}", d.split(':').next().unwrap_or("")), format!("prune at record {idx} (live jobs {live_jobs:?}, live workers {live_workers:?}): {d}"));
                }
                if !a.tasks.is_empty() {
                    rep.c("prunes_with_pending_tasks", 1);
                }
                if a.tasks.iter().any(|t| t.3 > 0) {
                    rep.c("prunes_with_crash_counts", 1);
                }
            }
            (Ok(_), Err(e)) => rep.v("C12", "U2-pruned-journal-does-not-restore", format!("prune at record {idx}: {e}")),
            (Err(_), _) => {} // C10's business
        }
    }
}

/// Runs the real journal thread on `path`: prune with the given live sets, then append records.
pub fn prune_via_thread(path: &Path, buffered: &[Event], live_jobs: &[u32], live_workers: &[u32], appended: &[Event], prune_twice: bool) -> Result<(), String> {
    let writer = JournalWriter::create_or_append(path, None).map_err(|e| format!("{e:?}"))?;
    let (tx, end) = start_event_streaming(writer, path, Duration::from_secs(3600));
    let rt = tokio::runtime::Builder::new_current_thread().enable_time().build().unwrap();
    let lj: Set<tako::JobId> = live_jobs.iter().map(|j| (*j).into()).collect();
    let lw: Set<WorkerId> = live_workers.iter().map(|w| (*w).into()).collect();
    rt.block_on(async {
        for e in buffered {
            tx.send(EventStreamMessage::Event(e.clone())).map_err(|_| "journal thread gone".to_string())?;
        }
        for _ in 0..(1 + prune_twice as usize) {
            let (cb, rx) = tokio::sync::oneshot::channel();
            tx.send(EventStreamMessage::PruneJournal { callback: cb, live_jobs: lj.clone(), live_workers: lw.clone() }).map_err(|_| "journal thread gone".to_string())?;
            tokio::time::timeout(Duration::from_secs(20), rx).await.map_err(|_| "prune timed out".to_string())?.map_err(|_| "journal thread dropped the prune callback (it failed)".to_string())?;
        }
        for e in appended {
            tx.send(EventStreamMessage::Event(e.clone())).map_err(|_| "journal thread gone".to_string())?;
        }
        let (cb, rx) = tokio::sync::oneshot::channel();
        tx.send(EventStreamMessage::FlushJournal(cb)).map_err(|_| "journal thread gone".to_string())?;
        let _ = tokio::time::timeout(Duration::from_secs(20), rx).await;
        drop(tx);
        end.await;
        Ok::<(), String>(())
    })
}

/* ------------------------------------- shard main ------------------------------------------- */

pub fn main(args: &[String]) -> i32 {
    let a = Args::parse(args);
    let prop = a.get("prop").unwrap_or("C10").to_string();
    let seed = a.u64("seed", 1);
    let shard = a.u64("shard", 0);
    let max_runs = a.u64("runs", 1000);
    let secs = a.u64("secs", 30);
    let tier = a.get("tier").unwrap_or("quick").to_string();
    let out = a.get("out").unwrap_or("/dev/stdout").to_string();
    let replay_dir = a.get("replays").unwrap_or("/verif/replays").to_string();
    let start = Instant::now();
    let deadline = start + Duration::from_secs(secs);
    let base = std::env::var("HQV_TMP").unwrap_or_else(|_| "/tmp".into());
    let dir = PathBuf::from(base).join(format!("hqv-journal-{}", std::process::id()));
    std::fs::create_dir_all(&dir).unwrap();
    let n_torn = if tier == "thorough" { 20 } else { 5 };

    let mut runs = 0u64;
    let mut held = 0u64;
    let mut violated = 0u64;
    let mut inconclusive: BTreeMap<String, u64> = BTreeMap::new();
    let mut cov: BTreeMap<String, u64> = BTreeMap::new();
    let mut hashes: BTreeSet<u64> = BTreeSet::new();
    let mut violations = Vec::new();
    let mut seen = BTreeSet::new();
    let mut samples = Vec::new();
    let mut steps = 0u64;
    let mut rng = Rng::new(rng::hash3(seed, shard, 4242));

    // regression corpus (shard 0): witnesses of earlier findings are replayed first
    let mut regress: Vec<(String, Vec<Action>, bool, Option<u64>)> = Vec::new();
    if shard == 0 {
        if let Some(dir) = a.get("regress") {
            let mut files: Vec<_> = std::fs::read_dir(dir).map(|d| d.filter_map(|e| e.ok()).map(|e| e.path()).collect()).unwrap_or_default();
            files.sort();
            for f in files {
                let name = f.file_name().unwrap().to_string_lossy().to_string();
                if !(name.starts_with("C10") || name.starts_with("C11") || name.starts_with("C12") || name.starts_with(prop.as_str())) || !name.ends_with(".json") {
                    continue;
                }
                let Ok(text) = std::fs::read_to_string(&f) else { continue };
                let Ok(v) = serde_json::from_str::<serde_json::Value>(&text) else { continue };
                let case = &v["case"];
                let Ok(actions) = serde_json::from_value::<Vec<Action>>(case["actions"].clone()) else { continue };
                regress.push((name, actions, case["with_crash"].as_bool().unwrap_or(false), case["splice_seed"].as_u64()));
            }
        }
    }
    let n_regress = regress.len() as u64;
    let mut regress = regress.into_iter();

    let mut i = 0u64;
    while i < max_runs && Instant::now() < deadline {
        let s = rng::hash3(seed, shard, i);
        i += 1;
        runs += 1;
        // every third run: a simulation run WITH crash/restart actions (real id issuing paths, J4)
        let mut with_crash = i % 3 == 0;
        let mut profile = Profile::for_property("C10");
        let next = regress.next();
        if next.is_none() && a.get("only-regress").is_some() {
            runs -= 1;
            break;
        }
        let mut splice_seed: Option<u64> = Some(rng::mix(s ^ 0x5171));
        let r = if let Some((_name, actions, wc, sp)) = next {
            with_crash = wc;
            // witnesses recorded before queue records were spliced in carry no seed: replay them as they were
            splice_seed = sp;
            run_in_runtime(Source::Replay { actions, profile }, true)
        } else {
            if with_crash {
                profile.w_crash = 2;
            }
            run_in_runtime(Source::Generate { seed: s, profile }, true)
        };
        steps += r.n_steps as u64;
        let mut rep = Rep::new();
        match &r.outcome {
            Outcome::HarnessError(e) => {
                *inconclusive.entry(format!("harness-error:{}", e.chars().take(50).collect::<String>())).or_insert(0) += 1;
                continue;
            }
            Outcome::RepoPanic if !with_crash => {
                *inconclusive.entry("repo-panic".into()).or_insert(0) += 1;
                continue;
            }
            _ => {}
        }
        if with_crash {
            rep.c("crash_runs", 1);
            rep.c("crash_runs.restarts", r.n_restarts as u64);
            if let Some(e) = &r.restore_error {
                rep.v("C10", &format!("J1-restart-fails:{}", e.chars().take(140).collect::<String>()), format!("restart inside a simulation run failed: {e}"));
            }
            if r.outcome == Outcome::RepoPanic {
                let sig = r.panics.first().map(panics::signature).unwrap_or_default();
                if sig.contains("restore.rs") || sig.contains("server/client/submit.rs") {
                    rep.v("C10", &format!("J1-restart-fails:panic: {sig}"), format!("restart inside a simulation run panicked: {sig}"));
                } else {
                    *inconclusive.entry("repo-panic".into()).or_insert(0) += 1;
                }
            }
            for v in &r.violations {
                if ["C10", "C11", "C12"].contains(&v.prop.as_str()) {
                    rep.v(&v.prop, &v.rule, v.detail.clone());
                }
            }
            for (k, n) in &r.monitors.coverage {
                if k.starts_with("restart") {
                    rep.c(k, *n);
                }
            }
        } else {
            // the autoalloc service does not run inside E1: queue/allocation records (independent of
            // the job records) are spliced into the journal at random positions
            let (journal, prune_points) = match splice_seed {
                Some(sp) => splice_queue_records(&r.journal, &r.prune_points, sp, &mut rep),
                None => (r.journal.clone(), r.prune_points.clone()),
            };
            check_journal(&journal, &prune_points, &dir, &mut rng, n_torn, &mut rep);
            rep.c("journals", 1);
            rep.c("journal_records", r.journal.len() as u64);
        }
        for (k, n) in &rep.cov {
            *cov.entry(k.clone()).or_insert(0) += n;
        }
        let mine: Vec<_> = rep.violations.iter().filter(|v| v.0 == prop).collect();
        if mine.is_empty() {
            held += 1;
        } else {
            violated += 1;
            for (_, rule, detail) in mine {
                if seen.insert(rule.clone()) {
                    let path = save_replay_value(&replay_dir, &prop, rule, s, &json!({"run_seed": s, "profile": "C10", "with_crash": with_crash, "actions": r.actions, "splice_seed": splice_seed}));
                    violations.push(json!({"signature": rule, "detail": detail, "seed": s, "source": "generated", "replay": path}));
                }
            }
        }
        let nontrivial = match prop.as_str() {
            "C12" => rep.cov.get("prunes").copied().unwrap_or(0) > 0,
            _ => rep.cov.get("cuts_compared").copied().unwrap_or(0) > 3 || rep.cov.get("crash_runs.restarts").copied().unwrap_or(0) > 0,
        };
        if nontrivial {
            hashes.insert(r.monitors.history_hash);
            if samples.len() < 2 && !with_crash {
                let kinds: Vec<String> = r.journal.iter().take(60).map(|e| {
                    let s = serde_json::to_string(&conv::ev(&e.payload)).unwrap();
                    s.chars().take(70).collect()
                }).collect();
                samples.push(json!({"run_seed": s, "journal_records": r.journal.len(), "cuts": r.journal.len() + 1, "prune_points": r.prune_points.iter().map(|p| p.0).collect::<Vec<_>>(), "journal_head": kinds, "observed": rep.cov}));
            }
        }
    }
    let _ = std::fs::remove_dir_all(&dir);
    let rule = match prop.as_str() {
        "C10" => "journals written by the real server inside simulation runs (submits into closed/open jobs, starts, finishes, failures before/after start, cancels, aborts, worker losses); EVERY record boundary of every journal is restored through the real StateRestorer and compared with an independent reference fold, plus random byte offsets inside records (torn tail) and simulation runs with crash/restart actions; distinct = distinct simulation history; non-trivial = more than 3 cuts compared or a restart executed",
        "C03" | "C06" | "C07" => "journal lab part of this property (restart clauses): every record boundary of journals written by the real server is restored and compared with a reference fold (dependencies of runnable tasks, instance ids, crash counts)",
        "C11" => "same cuts as C10: id counters after restore vs. every id mentioned in the prefix; plus simulation runs with crash/restart actions in which new jobs/workers get ids through the real submit/registration paths (chains of restarts)",
        _ => "prune requests issued through the real client request inside simulation runs give (record index, live sets); the real journal thread prunes a copy of the journal (tmp file, rename, reopen), records are appended, and restore(pruned) is compared with restore(unpruned); non-trivial = at least one prune executed",
    };
    let minima = match prop.as_str() {
        "C10" => json!({"cuts_compared": 1000, "pending_tasks_checked": 3000, "pending_tasks_started_before": 60, "pending_tasks_with_deps": 60, "torn_tails": 40, "crash_runs.restarts": 5, "journals_with_queue_records": 10}),
        "C11" => json!({"cuts_compared": 1000, "cuts_highest_job_gone": 8, "crash_runs.restarts": 5}),
        "C03" | "C06" | "C07" => json!({}),
        _ => json!({"prunes": 15, "prunes_with_pending_tasks": 8, "prunes_that_removed_records": 8, "journals_with_queue_records": 10, "prunes_with_unflushed_records": 8, "prunes_with_stale_tmp_file": 8}),
    };
    let summary = json!({
        "prop": prop, "shard": shard, "seed": seed, "runs": runs, "steps": steps,
        "verdicts": {"held": held, "violated": violated},
        "inconclusive": inconclusive,
        "nontrivial": hashes.len(),
        "hashes": hashes.iter().collect::<Vec<_>>(),
        "coverage": cov,
        "violations": violations,
        "samples": samples,
        "regress_replayed": n_regress,
        "rule": rule,
        "minima": minima,
        "assumptions": [
            "journals come from the simulation (E1); the autoalloc service does not run there, so allocation-queue and allocation records (which restore and prune treat independently of job records) are spliced into 70 % of the journals at random positions",
            "the reference fold (src/journal.rs) is small but trusted; a crash count is accepted if it equals the strict (root worker) or the lenient (any member of a multi-node task) reading",
            "crash points are record boundaries and byte offsets inside records of a journal whose earlier part is intact (no corruption in the middle)"
        ],
        "wall_s": start.elapsed().as_secs_f64(),
    });
    std::fs::write(&out, serde_json::to_string(&summary).unwrap()).unwrap();
    0
}
