//! E3 — worker allocator lab (C04, C16): the real `ResourceAllocator` driven by random
//! allocate/release sequences; a shadow ledger checks exclusivity/conservation (C04) and a
//! brute-force reference over group subsets checks the policy semantics (C16).

use std::collections::{BTreeMap, BTreeSet};
use std::rc::Rc;
use std::time::{Duration, Instant};

use serde_json::json;
use tako::resources::{
    Allocation, AllocationRequest, ResourceAllocRequest, ResourceDescriptor,
    ResourceDescriptorCoupling, ResourceDescriptorCouplingItem, ResourceDescriptorItem,
    ResourceDescriptorKind, ResourceRequest, ResourceWeight,
};
use tako::verif::{AllocatorLab, AllocatorSnapshot, PoolSnapshot};

use crate::rng::{self, Rng};
use crate::shard::{Args, save_replay_value};
use crate::sim::conv::amount;
use crate::sim::types::Policy;

const U: u64 = 10_000;

#[derive(Clone, Debug, serde::Serialize, serde::Deserialize, PartialEq, Eq)]
pub enum Kind {
    Range(u32),
    List(u32),
    Groups(Vec<u32>),
    Sum(u64),
}

#[derive(Clone, Debug, serde::Serialize, serde::Deserialize)]
pub struct Desc {
    pub resources: Vec<Kind>,
    /// (res1, group1, res2, group2, weight)
    pub coupling: Vec<(u8, u8, u8, u8, u16)>,
}

#[derive(Clone, Debug, serde::Serialize, serde::Deserialize, PartialEq, Eq)]
pub struct Entry {
    pub res: usize,
    pub policy: Policy,
    pub amount: u64,
}

pub type Req = Vec<Entry>;

#[derive(Clone, Debug, serde::Serialize, serde::Deserialize)]
pub enum Op {
    Alloc(Req),
    Release(usize),
}

#[derive(Clone, Debug, serde::Serialize, serde::Deserialize)]
pub struct Case {
    pub desc: Desc,
    pub ops: Vec<Op>,
    pub probes: Vec<Req>,
}

fn names(n: usize) -> Vec<String> {
    ["cpus", "gpus", "mem", "foo"][..n].iter().map(|s| s.to_string()).collect()
}

fn descriptor(d: &Desc) -> ResourceDescriptor {
    let nm = names(d.resources.len());
    let items = d
        .resources
        .iter()
        .enumerate()
        .map(|(i, k)| ResourceDescriptorItem {
            name: nm[i].clone(),
            kind: match k {
                Kind::Range(n) => ResourceDescriptorKind::Range {
                    start: 0.into(),
                    end: (*n - 1).into(),
                },
                Kind::List(n) => ResourceDescriptorKind::List {
                    values: (0..*n).map(|x| format!("x{x}")).collect(),
                },
                Kind::Groups(gs) => {
                    let mut c = 0;
                    ResourceDescriptorKind::Groups {
                        groups: gs
                            .iter()
                            .map(|n| {
                                (0..*n)
                                    .map(|_| {
                                        c += 1;
                                        format!("{}", c - 1)
                                    })
                                    .collect()
                            })
                            .collect(),
                    }
                }
                Kind::Sum(a) => ResourceDescriptorKind::Sum { size: amount(*a) },
            },
        })
        .collect();
    ResourceDescriptor::new(
        items,
        ResourceDescriptorCoupling {
            weights: d
                .coupling
                .iter()
                .map(|(r1, g1, r2, g2, w)| ResourceDescriptorCouplingItem {
                    resource1_idx: *r1,
                    group1_idx: (*g1).into(),
                    resource2_idx: *r2,
                    group2_idx: (*g2).into(),
                    weight: *w,
                })
                .collect(),
        },
    )
}

fn request(r: &Req) -> ResourceRequest {
    let mut entries: Vec<ResourceAllocRequest> = r
        .iter()
        .map(|e| ResourceAllocRequest {
            resource_id: (e.res as u32).into(),
            request: match e.policy {
                Policy::Compact => AllocationRequest::Compact(amount(e.amount)),
                Policy::Tight => AllocationRequest::Tight(amount(e.amount)),
                Policy::Scatter => AllocationRequest::Scatter(amount(e.amount)),
                Policy::ForceCompact => AllocationRequest::ForceCompact(amount(e.amount)),
                Policy::ForceTight => AllocationRequest::ForceTight(amount(e.amount)),
                Policy::All => AllocationRequest::All,
            },
        })
        .collect();
    entries.sort_by_key(|e| e.resource_id);
    ResourceRequest::new(0, Duration::ZERO, entries.into_iter().collect(), ResourceWeight::default())
}

/* ------------------------------------- generation ------------------------------------------ */

fn gen_desc(rng: &mut Rng) -> Desc {
    let n = rng.range(1, 3) as usize;
    let mut resources = Vec::new();
    for i in 0..n {
        let k = match (i, rng.below(10)) {
            (2, _) => Kind::Sum(*rng.pick(&[4u64, 10, 25]) * U + if rng.chance(1, 3) { 5000 } else { 0 }),
            (_, 0) => Kind::Range(rng.range(1, 6) as u32),
            (_, 1) => Kind::List(rng.range(1, 5) as u32),
            (_, 2) => Kind::Groups(vec![2, 2]),
            (_, 3) => Kind::Groups(vec![4, 4]),
            (_, 4) => Kind::Groups(vec![2, 2, 2]),
            (_, 5) => Kind::Groups(vec![3, 1]),
            (_, 6) => Kind::Groups(vec![4, 4, 4]),
            (_, 7) => Kind::Groups(vec![1, 1, 1, 1]),
            (_, 8) => Kind::Groups(vec![2, 3, 4]),
            _ => Kind::Groups(vec![3, 3]),
        };
        resources.push(k);
    }
    let mut coupling = Vec::new();
    if n >= 2 && rng.chance(35, 100) {
        if let (Kind::Groups(a), Kind::Groups(b)) = (&resources[0], &resources[1]) {
            let m = a.len().min(b.len());
            for g in 0..m {
                if rng.chance(80, 100) {
                    coupling.push((0u8, g as u8, 1u8, g as u8, *rng.pick(&[64u16, 128, 256])));
                }
            }
        }
    }
    Desc { resources, coupling }
}

fn res_size(k: &Kind) -> u64 {
    match k {
        Kind::Range(n) | Kind::List(n) => *n as u64 * U,
        Kind::Groups(g) => g.iter().map(|x| *x as u64).sum::<u64>() * U,
        Kind::Sum(a) => *a,
    }
}

fn gen_req(rng: &mut Rng, d: &Desc) -> Req {
    let n = d.resources.len();
    let k = rng.range(1, n as u64) as usize;
    let mut rs: Vec<usize> = (0..n).collect();
    rng.shuffle(&mut rs);
    rs.truncate(k);
    rs.sort_unstable();
    rs.iter()
        .map(|r| {
            let size = res_size(&d.resources[*r]);
            let grid = [2500u64, 5000, 7500, U, 15000, 2 * U, 25000, 3 * U, 4 * U, 5 * U, 6 * U, 8 * U];
            let mut a = *rng.pick(&grid);
            if a > size && rng.chance(85, 100) {
                a = *rng.pick(&[2500u64, 5000, U, 2 * U]).min(&size);
            }
            let policy = match rng.below(12) {
                0 | 1 | 2 => Policy::Compact,
                3 | 4 => Policy::Tight,
                5 | 6 => Policy::Scatter,
                7 => Policy::ForceCompact,
                8 => Policy::ForceTight,
                9 => Policy::All,
                _ => Policy::Compact,
            };
            Entry {
                res: *r,
                policy,
                amount: if policy == Policy::All { 0 } else { a.max(1) },
            }
        })
        .collect()
}

pub fn gen_case(seed: u64) -> Case {
    let mut rng = Rng::new(seed);
    let desc = gen_desc(&mut rng);
    let n_ops = rng.range(20, 160);
    let mut ops = Vec::new();
    let mut live = 0usize;
    for _ in 0..n_ops {
        if live > 0 && rng.chance(45, 100) {
            ops.push(Op::Release(rng.usize_below(64)));
            live = live.saturating_sub(1);
        } else {
            ops.push(Op::Alloc(gen_req(&mut rng, &desc)));
            live += 1; // upper bound (refused requests do not count, good enough for mixing)
        }
    }
    let probes = (0..rng.range(3, 8)).map(|_| gen_req(&mut rng, &desc)).collect();
    Case { desc, ops, probes }
}

/// The documented examples (docs/jobs/resources.md), verbatim.
pub fn doc_cases() -> Vec<(Case, Vec<Vec<usize>>)> {
    let d = Desc {
        resources: vec![Kind::Groups(vec![4, 4, 4])],
        coupling: vec![],
    };
    let mk = |p: Policy, expect: Vec<usize>| {
        (
            Case {
                desc: d.clone(),
                ops: vec![Op::Alloc(vec![Entry { res: 0, policy: p, amount: 6 * U }])],
                probes: vec![],
            },
            vec![expect],
        )
    };
    vec![
        mk(Policy::Compact, vec![3, 3]),
        mk(Policy::Tight, vec![4, 2]),
        mk(Policy::Scatter, vec![2, 2, 2]),
    ]
}

/* ------------------------------------- reference model ------------------------------------- */

/// free state of one indexed resource: per group (free whole indices, partial index -> free fractions)
type GroupFree = (BTreeSet<u32>, BTreeMap<u32, u32>);

struct Model {
    kinds: Vec<Kind>,
    /// index layout: resource -> group -> indices
    layout: Vec<Vec<Vec<u32>>>,
    /// held fractions per (resource, index)
    held: BTreeMap<(usize, u32), u64>,
    held_sum: Vec<u64>,
}

impl Model {
    fn new(d: &Desc, initial: &AllocatorSnapshot) -> Model {
        let layout = initial
            .pools
            .iter()
            .map(|p| match p {
                PoolSnapshot::Indices { indices, .. } => vec![indices.clone()],
                PoolSnapshot::Groups { indices, .. } => indices.clone(),
                _ => vec![],
            })
            .collect();
        Model {
            kinds: d.resources.clone(),
            layout,
            held: BTreeMap::new(),
            held_sum: vec![0; d.resources.len()],
        }
    }

    fn free_groups(&self, r: usize) -> Vec<GroupFree> {
        self.layout[r]
            .iter()
            .map(|g| {
                let mut whole = BTreeSet::new();
                let mut partial = BTreeMap::new();
                for i in g {
                    let h = self.held.get(&(r, *i)).copied().unwrap_or(0);
                    if h == 0 {
                        whole.insert(*i);
                    } else if h < U {
                        partial.insert(*i, (U - h) as u32);
                    }
                }
                (whole, partial)
            })
            .collect()
    }

    fn is_sum(&self, r: usize) -> bool {
        matches!(self.kinds[r], Kind::Sum(_))
    }

    fn n_groups(&self, r: usize) -> usize {
        self.layout[r].len()
    }
}

fn subset_feasible(groups: &[(u64, u32)], subset: u32, u: u64, f: u64) -> bool {
    let mut w = 0u64;
    let mut has_partial = false;
    for (g, (gw, gp)) in groups.iter().enumerate() {
        if subset & (1 << g) != 0 {
            w += gw;
            if f > 0 && *gp as u64 >= f {
                has_partial = true;
            }
        }
    }
    if f == 0 { w >= u } else { (w >= u && has_partial) || w >= u + 1 }
}

/// minimal number of groups that can hold (u, f) in the given state; None = infeasible
fn min_groups(groups: &[(u64, u32)], u: u64, f: u64) -> Option<u32> {
    let n = groups.len();
    let mut best: Option<u32> = None;
    for s in 1u32..(1 << n) {
        if subset_feasible(groups, s, u, f) {
            let k = s.count_ones();
            best = Some(best.map(|b| b.min(k)).unwrap_or(k));
        }
    }
    best
}

/* ------------------------------------- checks ---------------------------------------------- */

#[derive(Default)]
pub struct Report {
    pub violations: Vec<(String, String, String)>, // (prop, rule, detail)
    pub cov: BTreeMap<String, u64>,
}

impl Report {
    fn v(&mut self, prop: &str, rule: &str, detail: String) {
        if !self.violations.iter().any(|x| x.0 == prop && x.1 == rule) {
            self.violations.push((prop.into(), rule.into(), detail));
        }
    }
    fn c(&mut self, k: &str) {
        *self.cov.entry(k.to_string()).or_insert(0) += 1;
    }
}

fn snapshot_matches_model(snap: &AllocatorSnapshot, m: &Model, rep: &mut Report, when: &str) {
    for (r, p) in snap.pools.iter().enumerate() {
        match p {
            PoolSnapshot::Empty => {}
            PoolSnapshot::Sum { full_size, free } => {
                if *free + m.held_sum[r] != *full_size {
                    rep.v("C04", "A6-sum-not-conserved", format!("{when}: resource {r}: pool free {free} + held {} != size {full_size}", m.held_sum[r]));
                }
            }
            PoolSnapshot::Indices { indices, fractions, .. } => {
                check_group(r, 0, indices, fractions, &m.free_groups(r)[0], rep, when);
            }
            PoolSnapshot::Groups { indices, fractions, .. } => {
                let fg = m.free_groups(r);
                for g in 0..indices.len() {
                    check_group(r, g, &indices[g], &fractions[g], &fg[g], rep, when);
                }
            }
        }
        // A5: the concise summary mirrors the pools
        let concise = &snap.concise[r];
        match p {
            PoolSnapshot::Sum { free, .. } => {
                let units = concise.first().map(|g| g.0 as u64).unwrap_or(0);
                let fr: u64 = concise.first().map(|g| g.1.iter().map(|x| x.1 as u64).sum()).unwrap_or(0);
                if units * U + fr != *free {
                    rep.v("C04", "A5-concise-differs-from-pool", format!("{when}: sum resource {r}: concise {units}u+{fr} vs pool free {free}"));
                }
            }
            PoolSnapshot::Indices { indices, fractions, .. } => {
                concise_group(r, 0, indices.len(), fractions, concise.first(), rep, when);
            }
            PoolSnapshot::Groups { indices, fractions, .. } => {
                for g in 0..indices.len() {
                    concise_group(r, g, indices[g].len(), &fractions[g], concise.get(g), rep, when);
                }
            }
            PoolSnapshot::Empty => {}
        }
    }
}

fn concise_group(r: usize, g: usize, n_whole: usize, fractions: &[(u32, u32)], c: Option<&(u32, Vec<(u32, u32)>)>, rep: &mut Report, when: &str) {
    let Some((units, fr)) = c else {
        rep.v("C04", "A5-concise-differs-from-pool", format!("{when}: resource {r} group {g} missing in the concise summary"));
        return;
    };
    let a: BTreeMap<u32, u32> = fractions.iter().filter(|x| x.1 > 0).copied().collect();
    let b: BTreeMap<u32, u32> = fr.iter().filter(|x| x.1 > 0).copied().collect();
    if *units as usize != n_whole || a != b {
        rep.v(
            "C04",
            "A5-concise-differs-from-pool",
            format!("{when}: resource {r} group {g}: pool has {n_whole} whole + {a:?}, concise says {units} whole + {b:?}"),
        );
    }
}

fn check_group(r: usize, g: usize, indices: &[u32], fractions: &[(u32, u32)], model: &GroupFree, rep: &mut Report, when: &str) {
    let whole: BTreeSet<u32> = indices.iter().copied().collect();
    if whole.len() != indices.len() {
        rep.v("C04", "A1-index-listed-twice", format!("{when}: resource {r} group {g}: free list {indices:?}"));
    }
    let partial: BTreeMap<u32, u32> = fractions.iter().filter(|x| x.1 > 0).copied().collect();
    if whole != model.0 || partial != model.1 {
        rep.v(
            "C04",
            "A6-free-state-not-complement-of-held",
            format!(
                "{when}: resource {r} group {g}: pool free whole {whole:?} partial {partial:?}; live allocations leave whole {:?} partial {:?}",
                model.0, model.1
            ),
        );
    }
}

/// Checks one grant against the request (C04-A3) and the policy rules (C16), then books it.
fn check_grant(req: &Req, a: &Allocation, m: &mut Model, before: &Model2, d: &Desc, rep: &mut Report, probe: bool) {
    for e in req {
        let r = e.res;
        let Some(ra) = a.resources.iter().find(|x| u32::from(x.resource_id) as usize == r) else {
            rep.v("C04", "A3-resource-missing-in-grant", format!("request {req:?}: resource {r} missing in the allocation"));
            continue;
        };
        let size = res_size(&m.kinds[r]);
        let want = if e.policy == Policy::All { size } else { e.amount };
        if ra.amount.total_fractions() != want {
            rep.v("C04", "A3-amount", format!("request {e:?}: granted amount {} instead of {want}", ra.amount.total_fractions()));
        }
        if m.is_sum(r) {
            if !ra.indices.is_empty() {
                rep.v("C04", "A3-sum-with-indices", format!("request {e:?}: sum resource granted with indices"));
            }
            if m.held_sum[r] + want > size {
                rep.v("C04", "A2-sum-overcommitted", format!("request {e:?}: held {} + {want} > {size}", m.held_sum[r]));
            }
            continue;
        }
        // indexed
        let mut seen = BTreeSet::new();
        let mut total = 0u64;
        let mut n_frac = 0;
        let mut groups_used: BTreeMap<u32, u64> = BTreeMap::new();
        for ix in &ra.indices {
            let i = ix.index.as_num();
            if !seen.insert(i) {
                rep.v("C04", "A3-index-twice-in-grant", format!("request {e:?}: index {i} twice"));
            }
            let amount = if ix.fractions == 0 { U } else { ix.fractions as u64 };
            if ix.fractions != 0 {
                n_frac += 1;
            }
            total += amount;
            *groups_used.entry(ix.group_idx).or_insert(0) += 1;
            // group index must be the group the index lives in
            let real_group = m.layout[r].iter().position(|g| g.contains(&i));
            if real_group != Some(ix.group_idx as usize) {
                rep.v("C04", "A3-wrong-group-label", format!("request {e:?}: index {i} labelled group {} but lives in {real_group:?}", ix.group_idx));
            }
            let h = m.held.get(&(r, i)).copied().unwrap_or(0);
            if h + amount > U {
                rep.v(
                    "C04",
                    "A1-index-overcommitted",
                    format!("request {e:?}: index {i} of resource {r} already held {h}/10000, granted {amount} more"),
                );
            }
        }
        if total != want {
            rep.v("C04", "A3-indices-do-not-sum-to-amount", format!("request {e:?}: indices give {total}, amount {want}"));
        }
        if n_frac > 1 {
            rep.v("C16", "G5-fraction-on-several-indices", format!("request {e:?}: {n_frac} fractional indices {:?}", ra.indices));
        }
        // ---- C16: group rules
        let ng = m.n_groups(r);
        if ng > 1 && e.policy != Policy::All {
            let gs = &before.groups[r];
            let (u, f) = (want / U, want % U);
            let used = groups_used.len() as u32;
            let coupled = d.coupling.iter().any(|c| c.0 as usize == r || c.2 as usize == r)
                && req.iter().filter(|x| matches!(x.policy, Policy::Compact | Policy::Tight | Policy::ForceCompact | Policy::ForceTight) && m.n_groups(x.res) > 1).count() > 1;
            match e.policy {
                Policy::Compact | Policy::Tight => {
                    rep.c("groups.nonstrict_checked");
                    let k = min_groups(gs, u, f);
                    if Some(used) != k {
                        rep.v(
                            "C16",
                            "G1-not-minimal-groups",
                            format!("request {e:?} on free groups {gs:?}: used {used} groups {groups_used:?}, minimum is {k:?}"),
                        );
                    }
                }
                Policy::ForceCompact | Policy::ForceTight => {
                    rep.c("groups.strict_granted");
                    let k0 = min_groups(&before.empty_groups[r], u, f);
                    if Some(used) != k0 {
                        rep.v(
                            "C16",
                            "G2-strict-not-optimal-groups",
                            format!("request {e:?} on free groups {gs:?}: used {used} groups, the empty worker needs {k0:?}"),
                        );
                    }
                }
                Policy::Scatter => {
                    rep.c("groups.scatter_checked");
                    let nonempty = gs.iter().filter(|g| g.0 > 0).count() as u64;
                    if f == 0 {
                        let expect = u.min(nonempty) as u32;
                        if used != expect {
                            rep.v(
                                "C16",
                                "G3-scatter-not-spread",
                                format!("request {e:?} on free groups {gs:?}: used {used} groups {groups_used:?}, expected {expect}"),
                            );
                        }
                    } else {
                        let lo = u.min(nonempty) as u32;
                        if used < lo || used > lo + 1 {
                            rep.v("C16", "G3-scatter-not-spread", format!("request {e:?} on free groups {gs:?}: used {used} groups, expected {lo}..={}", lo + 1));
                        }
                    }
                }
                Policy::All => {}
            }
            // shape inside the chosen set (integer amounts)
            if f == 0 && !coupled {
                let counts: Vec<u64> = groups_used.values().copied().collect();
                match e.policy {
                    Policy::Tight | Policy::ForceTight => {
                        // packs greedily: at most one used group keeps free whole indices
                        let left = groups_used.iter().filter(|(g, c)| gs[**g as usize].0 > **c).count();
                        if left > 1 {
                            rep.v("C16", "G4-tight-not-packed", format!("request {e:?} on free groups {gs:?}: took {groups_used:?}"));
                        }
                    }
                    Policy::Compact | Policy::ForceCompact => {
                        // spreads evenly: a group that got fewer than another must be exhausted
                        let mx = counts.iter().max().copied().unwrap_or(0);
                        for (g, c) in &groups_used {
                            if *c + 1 < mx && gs[*g as usize].0 > *c {
                                rep.v("C16", "G4-compact-not-even", format!("request {e:?} on free groups {gs:?}: took {groups_used:?}"));
                            }
                        }
                    }
                    _ => {}
                }
            }
        }
        if e.policy == Policy::All {
            rep.c("all_checked");
            let all: BTreeSet<u32> = m.layout[r].iter().flatten().copied().collect();
            if seen != all || n_frac > 0 {
                rep.v("C16", "G6-all-not-entire-resource", format!("request {e:?}: got {seen:?} of {all:?}"));
            }
        }
    }
    if !probe || true {
        // book it
        for ra in &a.resources {
            let r = u32::from(ra.resource_id) as usize;
            if m.is_sum(r) {
                m.held_sum[r] += ra.amount.total_fractions();
            } else {
                for ix in &ra.indices {
                    *m.held.entry((r, ix.index.as_num())).or_insert(0) += if ix.fractions == 0 { U } else { ix.fractions as u64 };
                }
            }
        }
    }
}

fn unbook(a: &Allocation, m: &mut Model) {
    for ra in &a.resources {
        let r = u32::from(ra.resource_id) as usize;
        if m.is_sum(r) {
            m.held_sum[r] -= ra.amount.total_fractions();
        } else {
            for ix in &ra.indices {
                let k = (r, ix.index.as_num());
                let v = m.held.get_mut(&k).unwrap();
                *v -= if ix.fractions == 0 { U } else { ix.fractions as u64 };
                if *v == 0 {
                    m.held.remove(&k);
                }
            }
        }
    }
}

/// compact per-group view (free whole units, largest free partial) used by the reference
struct Model2 {
    groups: Vec<Vec<(u64, u32)>>,
    empty_groups: Vec<Vec<(u64, u32)>>,
    sum_free: Vec<u64>,
}

fn view(m: &Model) -> Model2 {
    let n = m.kinds.len();
    Model2 {
        groups: (0..n)
            .map(|r| {
                m.free_groups(r)
                    .iter()
                    .map(|(w, p)| (w.len() as u64, p.values().max().copied().unwrap_or(0)))
                    .collect()
            })
            .collect(),
        empty_groups: (0..n).map(|r| m.layout[r].iter().map(|g| (g.len() as u64, 0)).collect()).collect(),
        sum_free: (0..n).map(|r| res_size(&m.kinds[r]).saturating_sub(m.held_sum[r])).collect(),
    }
}

/// reference feasibility of one entry in the current free state
fn entry_feasible(e: &Entry, m: &Model, v: &Model2) -> bool {
    let r = e.res;
    let size = res_size(&m.kinds[r]);
    if m.is_sum(r) {
        return match e.policy {
            Policy::All => v.sum_free[r] == size,
            _ => v.sum_free[r] >= e.amount,
        };
    }
    let gs = &v.groups[r];
    let w: u64 = gs.iter().map(|g| g.0).sum();
    match e.policy {
        Policy::All => w * U == size,
        _ => {
            let (u, f) = (e.amount / U, e.amount % U);
            let maxp = gs.iter().map(|g| g.1).max().unwrap_or(0) as u64;
            if f == 0 { w >= u } else { (w >= u && maxp >= f) || w >= u + 1 }
        }
    }
}

fn check_decision(req: &Req, granted: bool, enabled: bool, m: &Model, v: &Model2, d: &Desc, rep: &mut Report) {
    if granted != enabled {
        rep.v("C16", "F2-admission-and-grant-disagree", format!("request {req:?}: is_enabled={enabled}, try_allocate granted={granted}"));
    }
    let feasible = req.iter().all(|e| entry_feasible(e, m, v));
    let strict = req
        .iter()
        .any(|e| matches!(e.policy, Policy::ForceCompact | Policy::ForceTight) && m.n_groups(e.res) > 1);
    if !feasible {
        rep.c("decision.infeasible");
        if granted {
            rep.v("C04", "A2-granted-more-than-free", format!("request {req:?} granted although the free resources {:?}/{:?} do not contain it", v.groups, v.sum_free));
        }
        return;
    }
    if !strict {
        rep.c("decision.nonstrict_feasible");
        if !granted {
            rep.v(
                "C16",
                "F1-spurious-refusal",
                format!("request {req:?} refused although free groups {:?} / sums {:?} contain enough", v.groups, v.sum_free),
            );
        }
        return;
    }
    // strict: granted iff every strict entry can reach its optimum now (no coupling involved)
    let coupled = !d.coupling.is_empty();
    let mut reachable = true;
    for e in req {
        if matches!(e.policy, Policy::ForceCompact | Policy::ForceTight) && m.n_groups(e.res) > 1 {
            let (u, f) = (e.amount / U, e.amount % U);
            let k0 = min_groups(&v.empty_groups[e.res], u, f);
            let k = min_groups(&v.groups[e.res], u, f);
            if k0.is_none() || k != k0 {
                reachable = false;
            }
        }
    }
    rep.c("decision.strict_feasible");
    if granted && !reachable {
        rep.v("C16", "G2-strict-granted-suboptimal", format!("strict request {req:?} granted on free groups {:?} where its optimum is not reachable", v.groups));
    }
    if !granted && reachable && !coupled {
        // informational only: the property allows a strict request to wait ("not started yet");
        // the allocator compares the objective of the WHOLE request (including its non-strict
        // entries and a group-size term) with the optimum of the empty worker
        rep.c("decision.strict_refused_though_group_optimum_reachable");
    }
}

pub fn run_case(case: &Case, expect_counts: Option<&Vec<Vec<usize>>>) -> Report {
    let mut rep = Report::default();
    let nm = names(case.desc.resources.len());
    let mut lab = AllocatorLab::new(&descriptor(&case.desc), nm);
    let initial = lab.snapshot();
    let mut m = Model::new(&case.desc, &initial);
    let mut live: Vec<(Rc<Allocation>, Req)> = Vec::new();
    snapshot_matches_model(&initial, &m, &mut rep, "initial");
    let mut n_alloc = 0usize;
    for (k, op) in case.ops.iter().enumerate() {
        // probes: allocate-then-release on every reachable state
        for p in &case.probes {
            let rq = request(p);
            let v = view(&m);
            let enabled = lab.is_enabled(&rq);
            let before = lab.snapshot();
            let got = lab.try_allocate(&rq);
            check_decision(p, got.is_some(), enabled, &m, &v, &case.desc, &mut rep);
            rep.c("probes");
            if let Some(a) = got {
                check_grant(p, &a, &mut m, &v, &case.desc, &mut rep, true);
                snapshot_matches_model(&lab.snapshot(), &m, &mut rep, &format!("after probe at op {k}"));
                unbook(&a, &mut m);
                lab.release_allocation(a);
                let after = lab.snapshot();
                if normalize(&after) != normalize(&before) {
                    rep.v("C04", "A4-release-does-not-restore", format!("probe {p:?} at op {k}: free state before {before:?} after release {after:?}"));
                }
            } else if lab.snapshot() != before {
                rep.v("C04", "A4-refused-request-changed-state", format!("probe {p:?} at op {k}"));
            }
        }
        match op {
            Op::Alloc(r) => {
                let rq = request(r);
                let v = view(&m);
                let enabled = lab.is_enabled(&rq);
                let got = lab.try_allocate(&rq);
                check_decision(r, got.is_some(), enabled, &m, &v, &case.desc, &mut rep);
                rep.c("allocs");
                if let Some(a) = got {
                    rep.c("grants");
                    if r.iter().any(|e| e.amount % U != 0 && e.policy != Policy::All) {
                        rep.c("grants.fractional");
                    }
                    check_grant(r, &a, &mut m, &v, &case.desc, &mut rep, false);
                    if let Some(exp) = expect_counts {
                        let mut counts: BTreeMap<u32, usize> = BTreeMap::new();
                        for ix in &a.resources[0].indices {
                            *counts.entry(ix.group_idx).or_insert(0) += 1;
                        }
                        let mut got: Vec<usize> = counts.values().copied().collect();
                        got.sort_unstable_by(|a, b| b.cmp(a));
                        if got != exp[n_alloc.min(exp.len() - 1)] {
                            rep.v("C16", "G7-documented-example", format!("request {r:?}: groups {got:?}, documentation says {:?}", exp[n_alloc.min(exp.len() - 1)]));
                        }
                    }
                    live.push((a, r.clone()));
                }
                n_alloc += 1;
            }
            Op::Release(i) => {
                if !live.is_empty() {
                    let (a, _) = live.remove(*i % live.len());
                    unbook(&a, &mut m);
                    lab.release_allocation(a);
                    rep.c("releases");
                }
            }
        }
        snapshot_matches_model(&lab.snapshot(), &m, &mut rep, &format!("after op {k}"));
        if !rep.violations.is_empty() {
            break;
        }
    }
    if rep.violations.is_empty() {
        // A4: release everything -> initial state, `all` of every resource succeeds
        while let Some((a, _)) = live.pop() {
            unbook(&a, &mut m);
            lab.release_allocation(a);
        }
        let end = lab.snapshot();
        if normalize(&end) != normalize(&initial) {
            rep.v("C04", "A4-not-everything-returned", format!("after releasing everything: {end:?} vs initial {initial:?}"));
        }
        let all: Req = (0..case.desc.resources.len())
            .map(|r| Entry { res: r, policy: Policy::All, amount: 0 })
            .collect();
        if lab.try_allocate(&request(&all)).is_none() {
            rep.v("C04", "A4-all-refused-on-idle-worker", "after releasing everything an `all` request for every resource is refused".to_string());
        }
        rep.c("sequences_completed");
    }
    rep
}

/// order-insensitive view of a free state (the order inside the free lists is not semantic)
fn normalize(s: &AllocatorSnapshot) -> String {
    let pools: Vec<String> = s
        .pools
        .iter()
        .map(|p| match p {
            PoolSnapshot::Indices { indices, fractions, .. } => {
                let mut i = indices.clone();
                i.sort_unstable();
                let f: Vec<_> = fractions.iter().filter(|x| x.1 > 0).collect();
                format!("I{i:?}{f:?}")
            }
            PoolSnapshot::Groups { indices, fractions, .. } => {
                let g: Vec<String> = indices
                    .iter()
                    .zip(fractions)
                    .map(|(i, f)| {
                        let mut i = i.clone();
                        i.sort_unstable();
                        let f: Vec<_> = f.iter().filter(|x| x.1 > 0).collect();
                        format!("{i:?}{f:?}")
                    })
                    .collect();
                format!("G{g:?}")
            }
            PoolSnapshot::Sum { free, .. } => format!("S{free}"),
            PoolSnapshot::Empty => "E".into(),
        })
        .collect();
    let concise: Vec<String> = s
        .concise
        .iter()
        .map(|c| {
            let g: Vec<String> = c
                .iter()
                .map(|(u, f)| {
                    let f: Vec<_> = f.iter().filter(|x| x.1 > 0).collect();
                    format!("{u}{f:?}")
                })
                .collect();
            format!("{g:?}")
        })
        .collect();
    format!("{pools:?}|{concise:?}")
}

pub fn main(args: &[String]) -> i32 {
    let a = Args::parse(args);
    let prop = a.get("prop").unwrap_or("C04").to_string();
    let seed = a.u64("seed", 1);
    let shard = a.u64("shard", 0);
    let max_runs = a.u64("runs", 1000);
    let secs = a.u64("secs", 30);
    let out = a.get("out").unwrap_or("/dev/stdout").to_string();
    let replay_dir = a.get("replays").unwrap_or("/verif/replays").to_string();
    let start = Instant::now();
    let deadline = start + Duration::from_secs(secs);
    let mut runs = 0u64;
    let mut held = 0u64;
    let mut violated = 0u64;
    let mut inconclusive: BTreeMap<String, u64> = BTreeMap::new();
    let mut cov: BTreeMap<String, u64> = BTreeMap::new();
    let mut hashes: BTreeSet<u64> = BTreeSet::new();
    let mut violations = Vec::new();
    let mut seen = BTreeSet::new();
    let mut samples = Vec::new();
    let mut steps = 0u64;

    let mut handle = |case: &Case, rep: Result<Report, String>, s: u64, source: &str| {
        runs += 1;
        match rep {
            Err(msg) => {
                // a panic inside the allocator on a valid request sequence
                violated += 1;
                let sig = format!("panic:{}", msg.chars().take(100).collect::<String>());
                if seen.insert(sig.clone()) {
                    let path = save_replay_value(&replay_dir, &prop, &sig, s, &serde_json::to_value(case).unwrap());
                    violations.push(json!({"signature": sig, "detail": msg, "seed": s, "source": source, "replay": path}));
                }
            }
            Ok(rep) => {
                steps += case.ops.len() as u64;
                for (k, n) in &rep.cov {
                    *cov.entry(k.clone()).or_insert(0) += n;
                }
                let mine: Vec<_> = rep.violations.iter().filter(|v| v.0 == prop).collect();
                if mine.is_empty() {
                    held += 1;
                } else {
                    violated += 1;
                    for (_, rule, detail) in mine {
                        if seen.insert(rule.clone()) {
                            let path = save_replay_value(&replay_dir, &prop, rule, s, &serde_json::to_value(case).unwrap());
                            violations.push(json!({"signature": rule, "detail": detail, "seed": s, "source": source, "replay": path}));
                        }
                    }
                }
                let nontrivial = if prop == "C04" {
                    rep.cov.get("grants").copied().unwrap_or(0) >= 2 && rep.cov.get("releases").copied().unwrap_or(0) >= 1
                } else {
                    rep.cov.get("groups.nonstrict_checked").copied().unwrap_or(0)
                        + rep.cov.get("groups.scatter_checked").copied().unwrap_or(0)
                        + rep.cov.get("groups.strict_granted").copied().unwrap_or(0)
                        > 0
                };
                if nontrivial {
                    hashes.insert(rng::mix(s ^ case.ops.len() as u64));
                    if samples.len() < 2 {
                        samples.push(json!({"seed": s, "descriptor": case.desc, "ops_head": case.ops.iter().take(12).collect::<Vec<_>>(), "probes": case.probes, "observed": rep.cov}));
                    }
                }
            }
        }
    };

    let only_regress = a.get("only-regress").is_some();
    // regression corpus (shard 0): witnesses of earlier findings are replayed first
    if shard == 0 {
        if let Some(dir) = a.get("regress") {
            let mut files: Vec<_> = std::fs::read_dir(dir).map(|d| d.filter_map(|e| e.ok()).map(|e| e.path()).collect()).unwrap_or_default();
            files.sort();
            for f in files {
                let name = f.file_name().unwrap().to_string_lossy().to_string();
                if !(name.starts_with("C04") || name.starts_with("C16")) {
                    continue;
                }
                if let Ok(v) = serde_json::from_str::<serde_json::Value>(&std::fs::read_to_string(&f).unwrap_or_default()) {
                    if let Ok(case) = serde_json::from_value::<Case>(v["case"].clone()) {
                        let r = std::panic::catch_unwind(std::panic::AssertUnwindSafe(|| run_case(&case, None)));
                        let r = r.map_err(|_| crate::panics::take().first().map(|p| format!("{}:{} {}", p.file, p.line, p.message)).unwrap_or_default());
                        handle(&case, r, 0, "regress");
                    }
                }
            }
        }
    }
    if shard == 0 && !only_regress {
        for (case, exp) in doc_cases() {
            let r = std::panic::catch_unwind(std::panic::AssertUnwindSafe(|| run_case(&case, Some(&exp))));
            let r = r.map_err(|_| crate::panics::take().first().map(|p| format!("{}:{} {}", p.file, p.line, p.message)).unwrap_or_default());
            handle(&case, r, 0, "documented-example");
        }
    }
    let mut i = 0u64;
    while !only_regress && i < max_runs && Instant::now() < deadline {
        let s = rng::hash3(seed, shard, i);
        let case = gen_case(s);
        let r = std::panic::catch_unwind(std::panic::AssertUnwindSafe(|| run_case(&case, None)));
        let r = r.map_err(|_| crate::panics::take().first().map(|p| format!("{}:{} {}", p.file, p.line, p.message)).unwrap_or_default());
        handle(&case, r, s, "generated");
        i += 1;
    }
    let _ = &mut inconclusive;
    let rule = if prop == "C04" {
        "random descriptors (list/range/groups/sum, couplings) x random allocate/release sequences with allocate-then-release probes on every reached free state; non-trivial = at least two grants and one release; distinct = distinct generated sequence"
    } else {
        "same sequences; non-trivial = at least one grant from a multi-group resource was compared with the brute-force reference; distinct = distinct generated sequence"
    };
    let minima = if prop == "C04" {
        json!({"grants": 300, "releases": 200, "probes": 2000, "grants.fractional": 50, "sequences_completed": 15})
    } else {
        json!({"groups.nonstrict_checked": 1000, "groups.scatter_checked": 200, "groups.strict_granted": 50, "decision.nonstrict_feasible": 2000, "decision.infeasible": 500, "all_checked": 100})
    };
    let summary = json!({
        "prop": prop, "shard": shard, "seed": seed, "runs": runs, "steps": steps,
        "verdicts": {"held": held, "violated": violated},
        "inconclusive": inconclusive,
        "nontrivial": hashes.len(),
        "hashes": hashes.iter().collect::<Vec<_>>(),
        "coverage": cov,
        "violations": violations,
        "samples": samples,
        "rule": rule,
        "minima": minima,
        "assumptions": [
            "the allocator is driven directly (tako::verif::AllocatorLab), requests are well-formed (sorted, unique resources, non-zero amounts)",
            "coupling weights are below the 1024-per-group penalty, so the number of groups stays lexicographically dominant",
            "strict policies with couplings are only checked in the direction 'granted => optimal group count'",
            "build profile: debug-assertions off (ResourcePool::validate is not compiled), so every verdict comes from the shadow ledger"
        ],
        "wall_s": start.elapsed().as_secs_f64(),
    });
    std::fs::write(&out, serde_json::to_string(&summary).unwrap()).unwrap();
    0
}
