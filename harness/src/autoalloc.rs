//! E5 — autoalloc lab (C17, C18): the real `AutoAllocState` with the real entry points
//! (`handle_message`, `perform_submits`, `do_periodic_update`) and the real scheduler query
//! against a core loaded with waiting tasks; the batch system is simulated by a `QueueHandler`
//! whose answers are chosen adversarially by the harness.

use std::cell::RefCell;
use std::collections::{BTreeMap, BTreeSet};
use std::future::Future;
use std::pin::Pin;
use std::rc::Rc;
use std::time::{Duration, Instant};

use hyperqueue::common::manager::info::{ManagerInfo, ManagerType, WORKER_EXTRA_MANAGER_KEY};
use hyperqueue::common::utils::time::AbsoluteTime;
use hyperqueue::server::autoalloc::verif::{
    AllocationExternalStatus, AllocationStatusMap, AllocationSubmissionResult, AllocationWorkdir, AutoallocLab, AutoallocSnapshot, QueueHandler, SubmitMode,
};
use hyperqueue::server::autoalloc::{Allocation, AllocationState, LostWorkerDetails, QueueId, QueueInfo, QueueParameters};
use hyperqueue::server::event::journal::EventStreamMessage;
use hyperqueue::server::event::payload::EventPayload;
use hyperqueue::server::event::streamer::EventStreamer;
use serde_json::json;
use tako::gateway::{LostWorkerReason, SharedTaskConfiguration, TaskConfiguration, TaskSubmit};
use tako::server::SchedulerConfig;
use tako::verif::SimServer;
use tako::{Map, TaskId, WorkerId};

use crate::rng::{self, Rng};
use crate::shard::{Args, save_replay_value};
use crate::sim::conv;
use crate::sim::types::{ReqSpec, ResKind, ResSpec, VariantSpec, WorkerSpec, EntrySpec, Policy};

#[derive(Clone, Debug, serde::Serialize, serde::Deserialize, PartialEq)]
pub enum Ext {
    Queued,
    Running,
    Finished,
    Failed,
    /// error for this allocation
    Error,
    /// not contained in the answer at all
    Missing,
}

#[derive(Clone, Debug, serde::Serialize, serde::Deserialize)]
pub enum Act {
    Tick,
    Periodic,
    Advance(u64),
    SetExt { alloc: usize, ext: Ext },
    StatusCallFails(bool),
    SubmitOutcome(u8), // 0 ok, 1 rejected by the manager, 2 directory error
    Connect { alloc: usize, unknown: bool },
    Lose { worker: usize, crashed: bool },
    /// loss notification for a worker that never announced its connection
    LoseFresh { alloc: usize, crashed: bool },
    /// duplicate loss notification of an already lost worker
    LoseAgain { worker: usize, crashed: bool },
    Pause(usize),
    Resume(usize),
    Remove { queue: usize, force: bool },
    AddTasks(u32),
    AddMultiNodeTask(u32),
    CancelAllTasks,
    ConnectRealWorker { group: u8 },
    JobSubmitted,
}

#[derive(Clone, Debug, serde::Serialize, serde::Deserialize)]
pub struct QueueCfg {
    pub backlog: u32,
    pub max_workers_per_alloc: u32,
    pub max_worker_count: Option<u32>,
    pub max_allocation_fails: u64,
    pub cli_cpus: Option<u32>,
}

#[derive(Clone, Debug, serde::Serialize, serde::Deserialize)]
pub struct Case {
    pub queues: Vec<QueueCfg>,
    pub acts: Vec<Act>,
}

/* ------------------------------------- simulated batch system ------------------------------- */

#[derive(Default)]
struct Batch {
    next_id: u32,
    submit_outcome: u8,
    status_call_fails: bool,
    ext: BTreeMap<String, Ext>,
    step: u32,
    /// (step, queue, worker count, dry run)
    submit_calls: Vec<(u32, QueueId, u64, bool)>,
    /// (step, allocation)
    remove_calls: Vec<(u32, String)>,
    status_calls: u32,
}

struct Handler(Rc<RefCell<Batch>>);

impl QueueHandler for Handler {
    fn submit_allocation(
        &mut self,
        queue_id: QueueId,
        _queue_info: &QueueInfo,
        worker_count: u64,
        mode: SubmitMode,
    ) -> Pin<Box<dyn Future<Output = anyhow::Result<AllocationSubmissionResult>>>> {
        let mut b = self.0.borrow_mut();
        let step = b.step;
        b.submit_calls.push((step, queue_id, worker_count, matches!(mode, SubmitMode::DryRun)));
        let outcome = b.submit_outcome;
        let r = match outcome {
            0 => {
                b.next_id += 1;
                let id = format!("a{}", b.next_id);
                b.ext.insert(id.clone(), Ext::Queued);
                Ok(AllocationSubmissionResult::new(Ok(id), AllocationWorkdir::from(std::path::PathBuf::from("/nonexistent-hqv"))))
            }
            1 => Ok(AllocationSubmissionResult::new(
                Err(anyhow::anyhow!("hqv: manager rejected the submission")),
                AllocationWorkdir::from(std::path::PathBuf::from("/nonexistent-hqv")),
            )),
            _ => Err(anyhow::anyhow!("hqv: cannot create directory")),
        };
        Box::pin(async move { r })
    }

    fn get_status_of_allocations(&self, allocations: &[&Allocation]) -> Pin<Box<dyn Future<Output = anyhow::Result<AllocationStatusMap>>>> {
        let mut b = self.0.borrow_mut();
        b.status_calls += 1;
        if b.status_call_fails {
            return Box::pin(async move { Err(anyhow::anyhow!("hqv: qstat failed")) });
        }
        let mut map: AllocationStatusMap = Map::new();
        for a in allocations {
            let e = b.ext.get(&a.id).cloned().unwrap_or(Ext::Missing);
            let now = AbsoluteTime::now();
            match e {
                Ext::Queued => {
                    map.insert(a.id.clone(), Ok(AllocationExternalStatus::Queued));
                }
                Ext::Running => {
                    map.insert(a.id.clone(), Ok(AllocationExternalStatus::Running));
                }
                Ext::Finished => {
                    map.insert(a.id.clone(), Ok(AllocationExternalStatus::Finished { started_at: Some(now), finished_at: now }));
                }
                Ext::Failed => {
                    map.insert(a.id.clone(), Ok(AllocationExternalStatus::Failed { started_at: Some(now), finished_at: now }));
                }
                Ext::Error => {
                    map.insert(a.id.clone(), Err(anyhow::anyhow!("hqv: status error")));
                }
                Ext::Missing => {}
            }
        }
        Box::pin(async move { Ok(map) })
    }

    fn remove_allocation(&self, allocation: &Allocation) -> Pin<Box<dyn Future<Output = anyhow::Result<()>>>> {
        let mut b = self.0.borrow_mut();
        let step = b.step;
        b.remove_calls.push((step, allocation.id.clone()));
        Box::pin(async move { Ok(()) })
    }
}

/* ------------------------------------- generation ------------------------------------------- */

pub fn gen_case(seed: u64) -> Case {
    let mut rng = Rng::new(seed);
    let style = rng.below(5);
    // style 4: a status-error storm - long runs of failing status reports (the whole query or one
    // allocation's entry) while allocations are queued / running, with an occasional good report in
    // between, so that the error thresholds (10 queued / 20 running) are actually crossed
    let storm = style == 4;
    let style = if storm { 1 } else { style };
    let nq = if style == 2 { 1 } else { rng.range(1, 2) as usize };
    let queues = (0..nq)
        .map(|_| QueueCfg {
            backlog: rng.range(1, 3) as u32,
            max_workers_per_alloc: rng.range(1, 3) as u32,
            max_worker_count: rng.chance(60, 100).then(|| rng.range(1, 6) as u32),
            max_allocation_fails: rng.range(1, 3),
            cli_cpus: rng.chance(40, 100).then(|| *rng.pick(&[2u32, 4])),
        })
        .collect();
    let n = rng.range(30, 120);
    let mut acts = vec![Act::AddTasks(if style == 2 { rng.range(40, 80) as u32 } else if storm { rng.range(4, 12) as u32 } else { rng.range(0, 12) as u32 })];
    let storm_at = if storm { rng.range(8, 40) } else { u64::MAX };
    for i in 0..n {
        if i == storm_at {
            // make sure something is queued and something runs, then let the reports fail
            acts.push(Act::Tick);
            acts.push(Act::Tick);
            for _ in 0..rng.range(0, 3) {
                acts.push(Act::Connect { alloc: rng.usize_below(64), unknown: false });
            }
            let whole_query = rng.chance(50, 100);
            if whole_query {
                acts.push(Act::StatusCallFails(true));
            } else {
                for _ in 0..rng.range(1, 3) {
                    acts.push(Act::SetExt { alloc: rng.usize_below(64), ext: Ext::Error });
                }
            }
            for _ in 0..rng.range(9, 32) {
                acts.push(Act::Periodic);
                match rng.below(12) {
                    0 => acts.push(Act::Tick),
                    1 => acts.push(Act::Advance(61)),
                    2 if whole_query => {
                        // one good report in between
                        acts.push(Act::StatusCallFails(false));
                        acts.push(Act::Periodic);
                        acts.push(Act::StatusCallFails(true));
                    }
                    3 => acts.push(Act::Connect { alloc: rng.usize_below(64), unknown: false }),
                    4 => acts.push(Act::Lose { worker: rng.usize_below(64), crashed: rng.chance(50, 100) }),
                    _ => {}
                }
            }
            acts.push(Act::StatusCallFails(false));
        }
        let w: Vec<u32> = match style {
            // failure heavy
            0 => vec![30, 6, 14, 8, 2, 12, 8, 8, 3, 6, 2, 4, 1, 2, 1, 2],
            // lifecycle heavy
            1 => vec![22, 12, 8, 16, 4, 3, 16, 14, 2, 3, 3, 4, 1, 2, 1, 2],
            // pause / resume heavy
            2 => vec![30, 6, 16, 6, 2, 10, 6, 6, 8, 12, 2, 4, 1, 2, 1, 2],
            _ => vec![25, 8, 10, 10, 3, 6, 10, 10, 4, 5, 3, 5, 2, 3, 2, 2],
        };
        let a = match rng.pick_weighted(&w) {
            0 => Act::Tick,
            1 => Act::Periodic,
            2 => Act::Advance(*rng.pick(&[10u64, 61, 61, 960, 1860, 3660])),
            3 => Act::SetExt {
                alloc: rng.usize_below(64),
                ext: match rng.below(6) {
                    0 => Ext::Queued,
                    1 => Ext::Running,
                    2 => Ext::Finished,
                    3 => Ext::Failed,
                    4 => Ext::Error,
                    _ => Ext::Missing,
                },
            },
            4 => Act::StatusCallFails(rng.chance(50, 100)),
            5 => Act::SubmitOutcome(match rng.below(10) {
                0..=4 => 0,
                5..=8 => 1,
                _ => 2,
            }),
            6 => Act::Connect { alloc: rng.usize_below(64), unknown: rng.chance(8, 100) },
            7 => match rng.below(10) {
                0 | 1 => Act::LoseFresh { alloc: rng.usize_below(64), crashed: rng.chance(50, 100) },
                2 => Act::LoseAgain { worker: rng.usize_below(64), crashed: rng.chance(50, 100) },
                _ => Act::Lose { worker: rng.usize_below(64), crashed: rng.chance(50, 100) },
            },
            8 => Act::Pause(rng.usize_below(nq)),
            9 => Act::Resume(rng.usize_below(nq)),
            10 => Act::Remove { queue: rng.usize_below(nq), force: rng.chance(50, 100) },
            11 => Act::AddTasks(rng.range(1, 10) as u32),
            12 if style == 3 => Act::AddMultiNodeTask(2),
            13 if style != 2 => Act::CancelAllTasks,
            14 if style == 3 => Act::ConnectRealWorker { group: rng.below(3) as u8 },
            12 | 13 | 14 => Act::Tick,
            _ => Act::JobSubmitted,
        };
        acts.push(a);
    }
    Case { queues, acts }
}

/* ------------------------------------- oracle state ----------------------------------------- */

#[derive(Default)]
pub struct Rep {
    pub violations: Vec<(String, String, String)>,
    pub cov: BTreeMap<String, u64>,
}

impl Rep {
    fn v(&mut self, prop: &str, rule: &str, detail: String) {
        if !self.violations.iter().any(|x| x.0 == prop && x.1 == rule) {
            self.violations.push((prop.into(), rule.into(), detail));
        }
    }
    fn c(&mut self, k: &str) {
        *self.cov.entry(k.to_string()).or_insert(0) += 1;
    }
}

fn rank(s: &AllocationState) -> u8 {
    match s {
        AllocationState::Queued { .. } => 0,
        AllocationState::Running { .. } => 1,
        AllocationState::Finished { .. } | AllocationState::FinishedUnexpectedly { .. } => 2,
    }
}

fn state_name(s: &AllocationState) -> &'static str {
    match s {
        AllocationState::Queued { .. } => "queued",
        AllocationState::Running { .. } => "running",
        AllocationState::Finished { .. } => "finished",
        AllocationState::FinishedUnexpectedly { .. } => "finished_unexpectedly",
    }
}

#[derive(Default)]
struct AllocTrack {
    queue: QueueId,
    target: u64,
    connected: BTreeSet<u32>,
    lost_while_running: BTreeSet<u32>,
    started_events: u32,
    finished_events: u32,
    errors_in_state: u32,
    last_rank: u8,
    final_kind: Option<&'static str>,
    removed: bool,
}

struct QTrack {
    id: QueueId,
    cfg: QueueCfg,
    removed: bool,
    /// virtual time of the last submission attempt (and of the one before)
    last_attempt_v: Option<u64>,
    last_attempt_v_prev: Option<u64>,
    /// set by Resume, cleared by the first tick that submits (or when a limit legitimately blocks)
    resumed_waiting: bool,
}

fn queues_id_at(_case: &Case, idx: usize) -> QueueId {
    // queue ids are assigned 1, 2, ... in creation order
    idx as QueueId + 1
}

pub async fn run_case(case: &Case) -> Rep {
    let mut rep = Rep::default();
    let server = SimServer::new("uid".into(), WorkerId::new(0), SchedulerConfig::default(), None);
    let (ev_tx, mut ev_rx) = tokio::sync::mpsc::unbounded_channel::<EventStreamMessage>();
    let events = EventStreamer::new(Some(ev_tx));
    // the core needs an event processor for worker connects
    struct Nop;
    impl tako::events::EventProcessor for Nop {
        fn on_task_finished(&mut self, _: TaskId) {}
        fn on_task_started(&mut self, _: TaskId, _: tako::InstanceId, _: &[WorkerId], _: tako::ResourceVariantId, _: Vec<u8>) {}
        fn on_task_error(&mut self, _: TaskId, _: Vec<TaskId>, _: tako::internal::messages::common::TaskFailInfo) -> Vec<TaskId> {
            vec![]
        }
        fn on_worker_new(&mut self, _: WorkerId, _: &tako::worker::WorkerConfiguration) {}
        fn on_worker_lost(&mut self, _: WorkerId, _: &[TaskId], _: LostWorkerReason) {}
        fn on_worker_overview(&mut self, _: Box<tako::worker::WorkerOverview>) {}
        fn on_task_notify(&mut self, _: TaskId, _: WorkerId, _: Box<[u8]>) {}
    }
    server.server_ref().set_client_events(Box::new(Nop));
    let mut lab = AutoallocLab::new(server.server_ref(), events, 1);
    let batch = Rc::new(RefCell::new(Batch::default()));
    let mut queues: Vec<QTrack> = Vec::new();
    for q in &case.queues {
        let params = QueueParameters {
            manager: ManagerType::Slurm,
            max_workers_per_alloc: q.max_workers_per_alloc,
            backlog: q.backlog,
            timelimit: Duration::from_secs(3600),
            name: None,
            max_worker_count: q.max_worker_count,
            min_utilization: 0.0,
            additional_args: vec![],
            worker_start_cmd: None,
            worker_stop_cmd: None,
            worker_wrap_cmd: None,
            cli_resource_descriptor: q.cli_cpus.map(|n| conv::descriptor(&[ResSpec { name: "cpus".into(), kind: ResKind::Range(n) }])),
            worker_args: vec![],
            idle_timeout: None,
        };
        let id = lab.add_queue(params, Box::new(Handler(batch.clone())), None, q.max_allocation_fails);
        queues.push(QTrack { id, cfg: q.clone(), removed: false, last_attempt_v: None, last_attempt_v_prev: None, resumed_waiting: false });
    }
    let cpu1 = conv::request(&ReqSpec {
        variants: vec![VariantSpec { n_nodes: 0, min_time_s: 0, entries: vec![EntrySpec { resource: "cpus".into(), policy: Policy::Compact, amount: 10_000 }] }],
    });
    let mn2 = conv::request(&ReqSpec { variants: vec![VariantSpec { n_nodes: 2, min_time_s: 0, entries: vec![] }] });
    let mut next_task = 1u32;
    let mut live_tasks: Vec<TaskId> = Vec::new();
    let mut live_mn_tasks = 0u32;
    let mut real_workers = 0u32;
    let mut allocs: BTreeMap<String, AllocTrack> = BTreeMap::new();
    let mut alloc_order: Vec<String> = Vec::new();
    let mut workers: Vec<(u32, String, bool, bool)> = Vec::new(); // (id, alloc, connect delivered, lost)
    let mut next_worker = 1000u32;
    let mut vclock = 0u64;
    let mut event_seq: Vec<EventPayload> = Vec::new();

    let submit = |server: &SimServer, ids: Vec<u32>, rq: &tako::gateway::ResourceRequestVariants| -> Vec<TaskId> {
        let rq_id = server.server_ref().get_or_create_resource_rq_id(rq);
        let tasks: Vec<TaskConfiguration> = ids
            .iter()
            .map(|i| TaskConfiguration { id: TaskId::new(1.into(), (*i).into()), resource_rq_id: rq_id, shared_data_index: 0, task_deps: Default::default(), entry: None })
            .collect();
        let out: Vec<TaskId> = tasks.iter().map(|t| t.id).collect();
        let _ = server.server_ref().add_new_tasks(TaskSubmit {
            tasks,
            shared_data: vec![SharedTaskConfiguration { time_limit: None, priority: tako::UserPriority::new(0), crash_limit: tako::gateway::CrashLimit::Unlimited, body: Rc::from(vec![]) }],
            adjust_instance_id_and_crash_counters: Default::default(),
        });
        out
    };
    let manager_info = |alloc: &str| ManagerInfo { manager: ManagerType::Slurm, allocation_id: alloc.to_string(), time_limit: Some(Duration::from_secs(3600)), max_memory_mb: None };

    for (step, act) in case.acts.iter().enumerate() {
        let step = step as u32 + 1;
        batch.borrow_mut().step = step;
        let before = lab.snapshot();
        let n_waiting = live_tasks.len() as u32;
        let mut resumed_now: Option<usize> = None;
        let mut unknown_message = false;
        let mut periodic_ran = false;
        match act {
            Act::Tick => {
                if lab.has_active_queues() {
                    if let Err(e) = lab.perform_submits().await {
                        rep.v("C17", "Q0-perform-submits-failed", format!("step {step}: {e}"));
                    }
                    rep.c("ticks");
                }
            }
            Act::Periodic => {
                if lab.has_active_queues() {
                    lab.do_periodic_update().await;
                    periodic_ran = true;
                    rep.c("periodic_updates");
                }
            }
            Act::Advance(d) => {
                vclock += d;
                for q in &queues {
                    lab.shift_limiter_clock(q.id, Duration::from_secs(*d));
                }
            }
            Act::SetExt { alloc, ext } => {
                if !alloc_order.is_empty() {
                    let id = alloc_order[*alloc % alloc_order.len()].clone();
                    batch.borrow_mut().ext.insert(id, ext.clone());
                }
            }
            Act::StatusCallFails(b) => batch.borrow_mut().status_call_fails = *b,
            Act::SubmitOutcome(o) => batch.borrow_mut().submit_outcome = *o,
            Act::Connect { alloc, unknown } => {
                let aid = if *unknown || alloc_order.is_empty() {
                    unknown_message = true;
                    "unknown-allocation".to_string()
                } else {
                    alloc_order[*alloc % alloc_order.len()].clone()
                };
                next_worker += 1;
                let wid = next_worker;
                let mut cfg = conv::worker_configuration(&WorkerSpec { resources: vec![ResSpec { name: "cpus".into(), kind: ResKind::Range(4) }], group: "g".into(), time_limit_s: None }, wid);
                cfg.extra.insert(WORKER_EXTRA_MANAGER_KEY.to_string(), serde_json::to_string(&manager_info(&aid)).unwrap());
                lab.worker_connected(WorkerId::new(wid), cfg, manager_info(&aid)).await;
                workers.push((wid, aid.clone(), true, false));
                if let Some(t) = allocs.get_mut(&aid) {
                    if !t.removed {
                        // counted only if the allocation is known and still takes workers
                        let st = before.queues.iter().flat_map(|q| q.allocations.iter()).find(|a| a.id == aid).map(|a| rank(&a.status));
                        if matches!(st, Some(0) | Some(1)) {
                            t.connected.insert(wid);
                        }
                    }
                }
                rep.c("worker_connects");
            }
            Act::Lose { worker, crashed } => {
                let candidates: Vec<usize> = workers.iter().enumerate().filter(|(_, w)| !w.3).map(|(i, _)| i).collect();
                if !candidates.is_empty() {
                    let i = candidates[*worker % candidates.len()];
                    let (wid, aid, _, _) = workers[i].clone();
                    workers[i].3 = true;
                    let details = LostWorkerDetails {
                        reason: if *crashed { LostWorkerReason::ConnectionLost } else { LostWorkerReason::Stopped },
                        lifetime: Duration::from_secs(if *crashed { 5 } else { 600 }),
                    };
                    if aid == "unknown-allocation" {
                        unknown_message = true;
                    }
                    lab.worker_lost(WorkerId::new(wid), manager_info(&aid), details).await;
                    if let Some(t) = allocs.get_mut(&aid) {
                        let st = before.queues.iter().flat_map(|q| q.allocations.iter()).find(|a| a.id == aid).map(|a| rank(&a.status));
                        if st == Some(1) && !t.removed {
                            t.lost_while_running.insert(wid);
                            t.connected.remove(&wid);
                        }
                    }
                    rep.c("worker_losses");
                }
            }
            Act::LoseFresh { alloc, crashed } => {
                if !alloc_order.is_empty() {
                    let aid = alloc_order[*alloc % alloc_order.len()].clone();
                    next_worker += 1;
                    let wid = next_worker;
                    workers.push((wid, aid.clone(), false, true));
                    let details = LostWorkerDetails {
                        reason: if *crashed { LostWorkerReason::ConnectionLost } else { LostWorkerReason::Stopped },
                        lifetime: Duration::from_secs(if *crashed { 5 } else { 600 }),
                    };
                    lab.worker_lost(WorkerId::new(wid), manager_info(&aid), details).await;
                    if let Some(t) = allocs.get_mut(&aid) {
                        let st = before.queues.iter().flat_map(|q| q.allocations.iter()).find(|a| a.id == aid).map(|a| rank(&a.status));
                        if st == Some(1) && !t.removed {
                            t.lost_while_running.insert(wid);
                        }
                    }
                    rep.c("worker_losses_before_connect");
                }
            }
            Act::LoseAgain { worker, crashed } => {
                let candidates: Vec<usize> = workers.iter().enumerate().filter(|(_, w)| w.3 && w.1 != "unknown-allocation").map(|(i, _)| i).collect();
                if !candidates.is_empty() {
                    let i = candidates[*worker % candidates.len()];
                    let (wid, aid, _, _) = workers[i].clone();
                    let details = LostWorkerDetails {
                        reason: if *crashed { LostWorkerReason::ConnectionLost } else { LostWorkerReason::Stopped },
                        lifetime: Duration::from_secs(if *crashed { 5 } else { 600 }),
                    };
                    lab.worker_lost(WorkerId::new(wid), manager_info(&aid), details).await;
                    if let Some(t) = allocs.get_mut(&aid) {
                        let st = before.queues.iter().flat_map(|q| q.allocations.iter()).find(|a| a.id == aid).map(|a| rank(&a.status));
                        if st == Some(1) && !t.removed {
                            // distinct workers are counted: a worker whose first loss arrived while the
                            // allocation was still queued is counted now
                            t.lost_while_running.insert(wid);
                            t.connected.remove(&wid);
                        }
                    }
                    rep.c("worker_losses_duplicated");
                }
            }
            Act::Pause(q) => {
                let id = queues[*q].id;
                let r = lab.pause_queue(id).await;
                if r.is_ok() == queues[*q].removed {
                    rep.v("C17", "Q9-pause-of-removed-queue", format!("step {step}: pause of queue {id} returned {r:?}"));
                }
                queues[*q].resumed_waiting = false;
                rep.c("pauses");
            }
            Act::Resume(q) => {
                let id = queues[*q].id;
                let was_paused = before.queues.iter().find(|x| x.id == id).map(|x| !x.active).unwrap_or(false);
                let r = lab.resume_queue(id).await;
                if r.is_ok() && was_paused {
                    resumed_now = Some(*q);
                    rep.c("resumes_of_paused_queue");
                    let l = before.queues.iter().find(|x| x.id == id).unwrap().limiter;
                    if l.1 >= 10 || l.2 >= queues[*q].cfg.max_allocation_fails {
                        rep.c("resumes_after_automatic_pause");
                    }
                }
            }
            Act::Remove { queue, force } => {
                let id = queues[*queue].id;
                let bq = before.queues.iter().find(|x| x.id == id);
                let r = lab.remove_queue(id, *force).await;
                match bq {
                    None => {
                        if r.is_ok() {
                            rep.v("C18", "R0-removing-unknown-queue-succeeds", format!("step {step}"));
                        }
                    }
                    Some(bq) => {
                        let has_running = bq.allocations.iter().any(|a| rank(&a.status) == 1);
                        let expect_ok = *force || !has_running;
                        if r.is_ok() != expect_ok {
                            rep.v("C18", "R1-remove-queue-result", format!("step {step}: queue {id} force={force} running allocations={has_running}: {r:?}"));
                        }
                        let calls: Vec<String> = batch.borrow().remove_calls.iter().filter(|c| c.0 == step).map(|c| c.1.clone()).collect();
                        if r.is_ok() {
                            queues[*queue].removed = true;
                            let mut want: Vec<String> = bq.allocations.iter().filter(|a| rank(&a.status) < 2).map(|a| a.id.clone()).collect();
                            want.sort();
                            let mut got = calls.clone();
                            got.sort();
                            if want != got {
                                rep.v("C18", "R2-remove-queue-cancels-each-active-allocation-once", format!("step {step}: active allocations {want:?}, remove_allocation called for {got:?}"));
                            }
                            for a in &bq.allocations {
                                if let Some(t) = allocs.get_mut(&a.id) {
                                    t.removed = true;
                                }
                            }
                            rep.c("queue_removals");
                            if !want.is_empty() {
                                rep.c("queue_removals_with_active_allocations");
                            }
                        } else if !calls.is_empty() {
                            rep.v("C18", "R1-refused-removal-has-effect", format!("step {step}: remove_allocation called {calls:?} although the removal was refused"));
                        }
                    }
                }
            }
            Act::AddTasks(n) => {
                let ids: Vec<u32> = (0..*n).map(|_| {
                    next_task += 1;
                    next_task
                }).collect();
                if !ids.is_empty() {
                    live_tasks.extend(submit(&server, ids, &cpu1));
                }
            }
            Act::AddMultiNodeTask(_) => {
                next_task += 1;
                submit(&server, vec![next_task], &mn2);
                live_mn_tasks += 1;
            }
            Act::CancelAllTasks => {
                let all: Vec<TaskId> = server.snapshot().tasks.iter().map(|t| t.id).collect();
                server.server_ref().cancel_tasks(&all);
                live_tasks.clear();
                live_mn_tasks = 0;
            }
            Act::ConnectRealWorker { group } => {
                if real_workers < 3 {
                    real_workers += 1;
                    // a worker that cannot run the 1-cpu tasks (it only has `foo`), so demand stays
                    let spec = WorkerSpec { resources: vec![ResSpec { name: "cpus".into(), kind: ResKind::Sum(0) }, ResSpec { name: "foo".into(), kind: ResKind::Range(1) }], group: format!("rg{group}"), time_limit_s: None };
                    let cfg = conv::worker_configuration(&spec, 500 + real_workers);
                    let _keep = server.connect_worker(cfg, Instant::now());
                    std::mem::forget(_keep);
                }
            }
            Act::JobSubmitted => {
                lab.job_submitted(1.into()).await;
            }
        }
        // ---- collect events of this step
        let mut step_events: Vec<EventPayload> = Vec::new();
        while let Ok(m) = ev_rx.try_recv() {
            if let EventStreamMessage::Event(e) = m {
                step_events.push(e.payload.clone());
                event_seq.push(e.payload);
            }
        }
        let after = lab.snapshot();
        let calls: Vec<(u32, QueueId, u64, bool)> = batch.borrow().submit_calls.iter().filter(|c| c.0 == step).cloned().collect();

        // register new allocations
        for q in &after.queues {
            for a in &q.allocations {
                if !allocs.contains_key(&a.id) {
                    allocs.insert(a.id.clone(), AllocTrack { queue: q.id, target: a.target_worker_count, ..Default::default() });
                    alloc_order.push(a.id.clone());
                    rep.c("allocations_created");
                }
            }
        }

        /* =============================== C17 ================================================ */
        for q in &after.queues {
            let queued = q.allocations.iter().filter(|a| rank(&a.status) == 0).count() as u32;
            if queued > q.backlog {
                rep.v("C17", "Q1-backlog-exceeded", format!("step {step}: queue {} has {queued} queued allocations, backlog {}", q.id, q.backlog));
            }
            if let Some(max) = q.max_worker_count {
                let active: u64 = q.allocations.iter().filter(|a| rank(&a.status) < 2).map(|a| a.target_worker_count).sum();
                if active > max as u64 {
                    rep.v("C17", "Q2-max-worker-count-exceeded", format!("step {step}: queue {} asks for {active} workers in queued+running allocations, maximum {max}", q.id));
                }
            }
        }
        for (_, qid, count, dry) in &calls {
            rep.c("submit_calls");
            let Some(bq) = before.queues.iter().find(|x| x.id == *qid) else {
                rep.v("C17", "Q4-submit-for-unknown-queue", format!("step {step}: submit for queue {qid}"));
                continue;
            };
            if *dry {
                continue;
            }
            if *count == 0 || *count > bq.max_workers_per_alloc as u64 {
                rep.v("C17", "Q3-workers-per-allocation", format!("step {step}: queue {qid}: allocation asks for {count} workers, allowed 1..={}", bq.max_workers_per_alloc));
            }
            if !bq.active {
                rep.v("C17", "Q4-submit-for-paused-queue", format!("step {step}: queue {qid} was paused but an allocation was submitted"));
            }
            if n_waiting == 0 && live_mn_tasks == 0 {
                rep.v("C17", "Q5-submit-without-demand", format!("step {step}: queue {qid}: submission although no task is waiting"));
            }
            // Q7: silent after too many failures
            let qt = queues.iter().find(|x| x.id == *qid).unwrap();
            if bq.limiter.1 >= 10 || bq.limiter.2 >= qt.cfg.max_allocation_fails {
                rep.v("C17", "Q7-submit-after-failure-limit", format!("step {step}: queue {qid} had {} submission / {} allocation failures in a row (limits 10 / {}) but submitted", bq.limiter.1, bq.limiter.2, qt.cfg.max_allocation_fails));
            }
        }
        // Q6 back-off (per attempt = per queue and tick)
        let mut attempted: BTreeSet<QueueId> = BTreeSet::new();
        for (_, qid, _, dry) in &calls {
            if *dry || !attempted.insert(*qid) {
                continue;
            }
            let bq = before.queues.iter().find(|x| x.id == *qid);
            let qt = queues.iter_mut().find(|x| x.id == *qid).unwrap();
            if let (Some(bq), Some(last)) = (bq, qt.last_attempt_v) {
                let delay = bq.limiter.0.as_secs();
                if delay > 0 {
                    rep.c("attempts_with_backoff_in_effect");
                }
                if vclock - last < delay {
                    rep.v("C17", "Q6-backoff-not-respected", format!("step {step}: queue {qid}: attempt {}s after the previous one, current back-off delay {delay}s", vclock - last));
                }
            }
            qt.last_attempt_v_prev = qt.last_attempt_v;
            qt.last_attempt_v = Some(vclock);
        }
        if matches!(act, Act::Tick) {
            for q in queues.iter_mut() {
                if q.removed {
                    continue;
                }
                let (Some(bq), Some(aq)) = (before.queues.iter().find(|x| x.id == q.id), after.queues.iter().find(|x| x.id == q.id)) else { continue };
                // Q7: paused at the next tick after the limits
                if bq.active && (bq.limiter.1 >= 10 || bq.limiter.2 >= q.cfg.max_allocation_fails) {
                    rep.c("automatic_pauses_expected");
                    if aq.active {
                        rep.v("C17", "Q7-not-paused-after-failure-limit", format!("step {step}: queue {} has {} submission / {} allocation failures in a row but stays active", q.id, bq.limiter.1, bq.limiter.2));
                    }
                }
                // Q8: a resumed queue submits at the first tick where nothing legitimately blocks it
                if q.resumed_waiting {
                    let queued = bq.allocations.iter().filter(|a| rank(&a.status) == 0).count() as u32;
                    let active_workers: u64 = bq.allocations.iter().filter(|a| rank(&a.status) < 2).map(|a| a.target_worker_count).sum();
                    let room = queued < bq.backlog && bq.max_worker_count.map(|m| active_workers < m as u64).unwrap_or(true);
                    // unambiguous demand: more waiting 1-cpu tasks than everything queued could run
                    // with an unknown worker shape the query assumes unlimited resources per worker: a
                    // single queued worker already covers any number of tasks
                    let shape_known = bq.known_worker_resources || q.cfg.cli_cpus.is_some();
                    let demand = n_waiting >= bq.backlog * bq.max_workers_per_alloc * 4 + 8 && real_workers == 0 && live_mn_tasks == 0 && (shape_known || queued == 0);
                    // (an attempt of this very tick has already updated last_attempt_v)
                    let submitted_now = calls.iter().any(|c| c.1 == q.id);
                    let last = if submitted_now { q.last_attempt_v_prev } else { q.last_attempt_v };
                    let delay_over = last.map(|l| vclock - l >= bq.limiter.0.as_secs()).unwrap_or(true);
                    // the other queue (queries are answered jointly, the first queue may take all demand)
                    let alone = before.queues.iter().filter(|x| x.active).count() <= 1;
                    if room && demand && delay_over && alone && bq.active {
                        rep.c("resume_ticks_judged");
                        if !calls.iter().any(|c| c.1 == q.id) {
                            rep.v(
                                "C17",
                                "Q8-resumed-queue-does-not-submit",
                                format!(
                                    "step {step}: queue {} was resumed, {n_waiting} tasks wait, {queued}/{} allocations queued, back-off elapsed, but the tick made no submission (limiter: {} submission / {} allocation failures in a row, active after the tick: {})",
                                    q.id, bq.backlog, bq.limiter.1, bq.limiter.2, aq.active
                                ),
                            );
                        }
                        q.resumed_waiting = false;
                    } else if submitted_now {
                        q.resumed_waiting = false;
                    }
                }
            }
        }
        if let Some(q) = resumed_now {
            queues[q].resumed_waiting = true;
        }
        // a NEW failure after the resume legitimately re-arms the limits (Q7 then applies again)
        for q in queues.iter_mut() {
            if q.resumed_waiting && resumed_now.map(|r| case.queues.len() > r && queues_id_at(&case, r) != q.id).unwrap_or(true) {
                if let (Some(bq), Some(aq)) = (before.queues.iter().find(|x| x.id == q.id), after.queues.iter().find(|x| x.id == q.id)) {
                    if aq.limiter.1 > bq.limiter.1 || aq.limiter.2 > bq.limiter.2 {
                        q.resumed_waiting = false;
                    }
                }
            }
        }

        /* =============================== C18 ================================================ */
        // index covers exactly the allocations of existing queues
        let mut all_ids: Vec<(String, QueueId)> = after.queues.iter().flat_map(|q| q.allocations.iter().map(move |a| (a.id.clone(), q.id))).collect();
        all_ids.sort();
        if all_ids != after.allocation_to_queue {
            rep.v("C18", "R3-allocation-index", format!("step {step}: allocations of existing queues {all_ids:?}, index {:?}", after.allocation_to_queue));
        }
        if unknown_message && format!("{:?}", before.queues.iter().map(|q| &q.allocations).collect::<Vec<_>>()) != format!("{:?}", after.queues.iter().map(|q| &q.allocations).collect::<Vec<_>>()) {
            rep.v("C18", "R4-unknown-allocation-changes-state", format!("step {step}: a worker message naming an unknown allocation changed the allocations"));
        }
        for e in &step_events {
            match e {
                EventPayload::AllocationStarted(_, id) => {
                    if let Some(t) = allocs.get_mut(id) {
                        t.started_events += 1;
                        if t.started_events > 1 {
                            rep.v("C18", "L2-start-announced-twice", format!("step {step}: allocation {id}"));
                        }
                        if t.finished_events > 0 {
                            rep.v("C18", "L3-start-announced-after-end", format!("step {step}: allocation {id}"));
                        }
                    }
                }
                EventPayload::AllocationFinished(_, id) => {
                    if let Some(t) = allocs.get_mut(id) {
                        t.finished_events += 1;
                        if t.finished_events > 1 {
                            rep.v("C18", "L2-end-announced-twice", format!("step {step}: allocation {id}"));
                        }
                    }
                }
                _ => {}
            }
        }
        for q in &after.queues {
            for a in &q.allocations {
                let t = allocs.get_mut(&a.id).unwrap();
                let r = rank(&a.status);
                let prev = before.queues.iter().flat_map(|x| x.allocations.iter()).find(|x| x.id == a.id);
                if r < t.last_rank {
                    rep.v("C18", "L1-lifecycle-went-backwards", format!("step {step}: allocation {} went from rank {} to {}", a.id, t.last_rank, state_name(&a.status)));
                }
                if let Some(k) = t.final_kind {
                    if k != state_name(&a.status) {
                        rep.v("C18", "L1-left-finished-state", format!("step {step}: allocation {} was {k}, now {}", a.id, state_name(&a.status)));
                    }
                }
                let rank_changed = r != t.last_rank;
                if rank_changed {
                    rep.c(&format!("transition.{}->{}", t.last_rank, state_name(&a.status)));
                }
                if r == 2 && t.final_kind.is_none() {
                    t.final_kind = Some(state_name(&a.status));
                    if t.finished_events != 1 {
                        rep.v("C18", "L2-end-not-announced-exactly-once", format!("step {step}: allocation {} became {} but its end was announced {} times", a.id, state_name(&a.status), t.finished_events));
                    }
                    // normal finish <=> all target workers lost
                    let normal = matches!(a.status, AllocationState::Finished { .. });
                    let all_lost = t.lost_while_running.len() as u64 == t.target;
                    if normal != all_lost {
                        rep.v(
                            "C18",
                            "W2-normal-finish-iff-all-workers-lost",
                            format!("step {step}: allocation {} (size {}) is {}, distinct workers lost from it while running: {:?}", a.id, t.target, state_name(&a.status), t.lost_while_running),
                        );
                    }
                } else if r < 2 && t.finished_events > 0 {
                    rep.v("C18", "L3-end-announced-before-finish", format!("step {step}: allocation {} is {} but its end was already announced", a.id, state_name(&a.status)));
                }
                if r < 2 && t.lost_while_running.len() as u64 >= t.target && t.target > 0 {
                    rep.v("C18", "W2-all-workers-lost-but-not-finished", format!("step {step}: allocation {} (size {}) lost {:?} but is {}", a.id, t.target, t.lost_while_running, state_name(&a.status)));
                }
                if let AllocationState::Running { connected_workers, .. } = &a.status {
                    let got: BTreeSet<u32> = connected_workers.iter().map(|w| w.as_num()).collect();
                    if got != t.connected {
                        rep.v("C18", "W1-connected-workers", format!("step {step}: allocation {}: connected workers {got:?}, expected {:?}", a.id, t.connected));
                    }
                    if !got.is_empty() {
                        rep.c("running_allocations_with_workers_checked");
                    }
                }
                // status error streaks
                if periodic_ran {
                    let errored = {
                        let b = batch.borrow();
                        b.status_call_fails || matches!(b.ext.get(&a.id), Some(Ext::Error))
                    };
                    if let Some(p) = prev {
                        if rank(&p.status) < 2 && errored {
                            t.errors_in_state += 1;
                            let limit = if rank(&p.status) == 0 { 10 } else { 20 };
                            let ended = r == 2;
                            // the same refresh may end the allocation for another reason (external status)
                            let other_reason = !batch.borrow().status_call_fails && !matches!(batch.borrow().ext.get(&a.id), Some(Ext::Error));
                            if (t.errors_in_state > limit) != ended && !other_reason {
                                rep.v("C18", "E1-status-error-threshold", format!("step {step}: allocation {} in state {} has seen {} status errors (threshold {limit}), ended: {ended}", a.id, state_name(&p.status), t.errors_in_state));
                            }
                            if ended {
                                rep.c("ended_by_status_errors");
                                rep.c(if rank(&p.status) == 0 { "ended_by_status_errors.while_queued" } else { "ended_by_status_errors.while_running" });
                            }
                        }
                    }
                }
                if rank_changed {
                    t.errors_in_state = 0;
                }
                t.last_rank = r;
            }
        }
    }
    let _ = (live_mn_tasks, &event_seq);
    rep
}

pub fn main(args: &[String]) -> i32 {
    let a = Args::parse(args);
    let prop = a.get("prop").unwrap_or("C17").to_string();
    let seed = a.u64("seed", 1);
    let shard = a.u64("shard", 0);
    let max_runs = a.u64("runs", 1000);
    let secs = a.u64("secs", 30);
    let out = a.get("out").unwrap_or("/dev/stdout").to_string();
    let replay_dir = a.get("replays").unwrap_or("/verif/replays").to_string();
    let start = Instant::now();
    let deadline = start + Duration::from_secs(secs);
    let rt = tokio::runtime::Builder::new_current_thread().enable_time().build().unwrap();
    let mut runs = 0u64;
    let mut held = 0u64;
    let mut violated = 0u64;
    let mut cov: BTreeMap<String, u64> = BTreeMap::new();
    let mut hashes: BTreeSet<u64> = BTreeSet::new();
    let mut violations = Vec::new();
    let mut seen = BTreeSet::new();
    let mut samples = Vec::new();
    let mut steps = 0u64;
    let mut regress: Vec<Case> = Vec::new();
    if shard == 0 {
        if let Some(dir) = a.get("regress") {
            let mut files: Vec<_> = std::fs::read_dir(dir).map(|d| d.filter_map(|e| e.ok()).map(|e| e.path()).collect()).unwrap_or_default();
            files.sort();
            for f in files {
                let name = f.file_name().unwrap().to_string_lossy().to_string();
                if !(name.starts_with("C17") || name.starts_with("C18")) {
                    continue;
                }
                if let Ok(v) = serde_json::from_str::<serde_json::Value>(&std::fs::read_to_string(&f).unwrap_or_default()) {
                    if let Ok(c) = serde_json::from_value::<Case>(v["case"].clone()) {
                        regress.push(c);
                    }
                }
            }
        }
    }
    let n_regress = regress.len();
    let mut regress = regress.into_iter();
    let mut i = 0u64;
    while i < max_runs && Instant::now() < deadline {
        let s = rng::hash3(seed, shard, i);
        i += 1;
        let next = regress.next();
        if next.is_none() && a.get("only-regress").is_some() {
            break;
        }
        let case = next.unwrap_or_else(|| gen_case(s));
        runs += 1;
        steps += case.acts.len() as u64;
        let _ = crate::panics::take();
        let local = tokio::task::LocalSet::new();
        let r = std::panic::catch_unwind(std::panic::AssertUnwindSafe(|| local.block_on(&rt, run_case(&case))));
        let rep = match r {
            Ok(rep) => rep,
            Err(_) => {
                let p = crate::panics::take();
                let sig = p.first().map(crate::panics::signature).unwrap_or_else(|| "unknown".into());
                let mut rep = Rep::default();
                rep.v("C17", &format!("P-panic:{sig}"), format!("panic in the autoalloc/scheduler-query code: {sig}"));
                rep.v("C18", &format!("P-panic:{sig}"), format!("panic in the autoalloc/scheduler-query code: {sig}"));
                rep.v("C09", &sig, format!("panic in the autoalloc/scheduler-query code: {sig}"));
                rep
            }
        };
        for (k, n) in &rep.cov {
            *cov.entry(k.clone()).or_insert(0) += n;
        }
        let mine: Vec<_> = rep.violations.iter().filter(|v| v.0 == prop).collect();
        if mine.is_empty() {
            held += 1;
        } else {
            violated += 1;
            for (_, rule, detail) in mine {
                if seen.insert(rule.clone()) {
                    let path = save_replay_value(&replay_dir, &prop, rule, s, &serde_json::to_value(&case).unwrap());
                    violations.push(json!({"signature": rule, "detail": detail, "seed": s, "source": "generated", "replay": path}));
                }
            }
        }
        let nontrivial = if prop == "C17" { rep.cov.get("submit_calls").copied().unwrap_or(0) > 0 } else { rep.cov.get("allocations_created").copied().unwrap_or(0) > 0 && rep.cov.get("worker_connects").copied().unwrap_or(0) > 0 };
        if nontrivial {
            hashes.insert(rng::mix(s));
            if samples.len() < 2 {
                samples.push(json!({"seed": s, "queues": case.queues, "acts_head": case.acts.iter().take(40).collect::<Vec<_>>(), "observed": rep.cov}));
            }
        }
    }
    let (rule, minima) = if prop == "C09" {
        (
            "autoalloc lab part of C09: the same random autoalloc histories (scheduler worker query with waiting single-/multi-node tasks, real workers in several groups) run under catch_unwind; any panic in repository code is a violation",
            json!({}),
        )
    } else if prop == "C17" {
        (
            "random histories (30-120 events) of ticks, periodic status refreshes, clock advances, adversarial external statuses, submission outcomes, worker connects/losses, pause/resume/remove, task submits/cancels against the real autoalloc state machine and the real scheduler query; non-trivial = at least one submission was made; distinct = distinct generated history",
            json!({"submit_calls": 2000, "ticks": 5000, "automatic_pauses_expected": 50, "attempts_with_backoff_in_effect": 100, "resumes_of_paused_queue": 100, "resume_ticks_judged": 30}),
        )
    } else {
        (
            "same histories with a lifecycle-heavy event mix, a fifth of them with a status-error storm (9-32 consecutive failing status refreshes - the whole query or single allocations - while allocations are queued / running, an occasional good report in between); non-trivial = an allocation was created and a worker connected; distinct = distinct generated history",
            json!({"allocations_created": 2000, "worker_connects": 2000, "worker_losses": 1000, "transition.0->running": 300, "transition.1->finished": 100, "queue_removals_with_active_allocations": 30, "running_allocations_with_workers_checked": 1000, "ended_by_status_errors.while_queued": 15, "ended_by_status_errors.while_running": 10}),
        )
    };
    let summary = json!({
        "prop": prop, "shard": shard, "seed": seed, "runs": runs, "steps": steps,
        "verdicts": {"held": held, "violated": violated},
        "inconclusive": {},
        "nontrivial": hashes.len(),
        "hashes": hashes.iter().collect::<Vec<_>>(),
        "coverage": cov,
        "violations": violations,
        "samples": samples,
        "regress_replayed": n_regress,
        "rule": rule,
        "minima": minima,
        "assumptions": [
            "the batch system is simulated by a QueueHandler; the real PBS/Slurm handlers (script generation, qsub/sbatch parsing) are not part of this check",
            "demand is judged only where it is unambiguous: no waiting task at all = no demand; far more waiting 1-cpu tasks than all queued allocations could run = demand (Q5/Q8), everything in between only feeds Q1-Q4, Q6, Q7",
            "worker notifications include losses before/without a connect and duplicated losses; connects may name unknown or already finished allocations",
            "limiter time is virtual (RateLimiter.last_submission is shifted); real elapsed microseconds can only make an attempt later, never earlier"
        ],
        "wall_s": start.elapsed().as_secs_f64(),
    });
    std::fs::write(&out, serde_json::to_string(&summary).unwrap()).unwrap();
    0
}
