//! E4b — queue-id lab (queue clause of C11): allocation queues are created and removed through the
//! real autoalloc state machine, its events are written with the real `JournalWriter`, the server
//! is "restarted" (journal prefix -> real `StateRestorer` -> fresh `AutoAllocState` seeded with the
//! restored counter -> restored queues re-added with their ids exactly as `start_server` does)
//! and the ids issued afterwards are compared with every queue id the journal mentions.

use std::collections::{BTreeMap, BTreeSet};
use std::future::Future;
use std::pin::Pin;
use std::time::{Duration, Instant};

use hyperqueue::common::manager::info::ManagerType;
use hyperqueue::server::autoalloc::verif::{AllocationStatusMap, AllocationSubmissionResult, AutoallocLab, QueueHandler, SubmitMode};
use hyperqueue::server::autoalloc::{Allocation, QueueId, QueueParameters};
use hyperqueue::server::event::Event;
use hyperqueue::server::event::journal::{EventStreamMessage, JournalWriter};
use hyperqueue::server::event::payload::EventPayload;
use hyperqueue::server::event::streamer::EventStreamer;
use hyperqueue::server::state::StateRef;
use hyperqueue::transfer::messages::ServerInfo;
use serde_json::json;
use tako::WorkerId;
use tako::server::SchedulerConfig;
use tako::verif::SimServer;

use crate::rng::{self, Rng};
use crate::shard::{Args, save_replay_value};

#[derive(Clone, Debug, serde::Serialize, serde::Deserialize)]
pub enum Op {
    Add,
    Remove { idx: usize, force: bool },
    /// restart from the journal; `drop_tail` = number of records lost at the end (crash)
    Restart { drop_tail: usize },
}

struct NoBatch;
impl QueueHandler for NoBatch {
    fn submit_allocation(&mut self, _: QueueId, _: &hyperqueue::server::autoalloc::QueueInfo, _: u64, _: SubmitMode) -> Pin<Box<dyn Future<Output = anyhow::Result<AllocationSubmissionResult>>>> {
        Box::pin(async { Err(anyhow::anyhow!("hqv: no batch system")) })
    }
    fn get_status_of_allocations(&self, _: &[&Allocation]) -> Pin<Box<dyn Future<Output = anyhow::Result<AllocationStatusMap>>>> {
        Box::pin(async { Ok(Default::default()) })
    }
    fn remove_allocation(&self, _: &Allocation) -> Pin<Box<dyn Future<Output = anyhow::Result<()>>>> {
        Box::pin(async { Ok(()) })
    }
}

pub fn params(k: u32) -> QueueParameters {
    QueueParameters {
        manager: if k % 2 == 0 { ManagerType::Slurm } else { ManagerType::Pbs },
        max_workers_per_alloc: 1 + k % 3,
        backlog: 1 + k % 4,
        timelimit: Duration::from_secs(3600),
        name: Some(format!("q{k}")),
        max_worker_count: None,
        min_utilization: 0.0,
        additional_args: vec![],
        worker_start_cmd: None,
        worker_stop_cmd: None,
        worker_wrap_cmd: None,
        cli_resource_descriptor: None,
        worker_args: vec![],
        idle_timeout: None,
    }
}

pub fn gen_ops(seed: u64) -> Vec<Op> {
    let mut rng = Rng::new(seed);
    let n = rng.range(4, 24);
    (0..n)
        .map(|_| match rng.below(10) {
            0..=3 => Op::Add,
            4..=6 => Op::Remove { idx: rng.usize_below(8), force: rng.chance(50, 100) },
            _ => Op::Restart { drop_tail: if rng.chance(35, 100) { rng.range(1, 3) as usize } else { 0 } },
        })
        .collect()
}

struct Inc {
    lab: AutoallocLab,
    ev_rx: tokio::sync::mpsc::UnboundedReceiver<EventStreamMessage>,
    _server: SimServer,
}

fn new_inc(queue_counter: u32) -> Inc {
    let server = SimServer::new("uid".into(), WorkerId::new(0), SchedulerConfig::default(), None);
    let (ev_tx, ev_rx) = tokio::sync::mpsc::unbounded_channel::<EventStreamMessage>();
    let events = EventStreamer::new(Some(ev_tx));
    let lab = AutoallocLab::new(server.server_ref(), events, queue_counter);
    Inc { lab, ev_rx, _server: server }
}

fn mentioned(journal: &[Event]) -> BTreeSet<u32> {
    journal
        .iter()
        .filter_map(|e| match &e.payload {
            EventPayload::AllocationQueueCreated(id, _) | EventPayload::AllocationQueueRemoved(id) => Some(*id),
            EventPayload::AllocationQueued { queue_id, .. } | EventPayload::AllocationStarted(queue_id, _) | EventPayload::AllocationFinished(queue_id, _) => Some(*queue_id),
            _ => None,
        })
        .collect()
}

fn live_by_fold(journal: &[Event]) -> BTreeSet<u32> {
    let mut live = BTreeSet::new();
    for e in journal {
        match &e.payload {
            EventPayload::AllocationQueueCreated(id, _) => {
                live.insert(*id);
            }
            EventPayload::AllocationQueueRemoved(id) => {
                live.remove(id);
            }
            _ => {}
        }
    }
    live
}

pub struct Rep {
    pub violations: Vec<(String, String)>,
    pub cov: BTreeMap<String, u64>,
}

pub async fn run_ops(ops: &[Op], tmp: &std::path::Path) -> Rep {
    let mut rep = Rep { violations: vec![], cov: BTreeMap::new() };
    let mut c = |rep: &mut Rep, k: &str| *rep.cov.entry(k.to_string()).or_insert(0) += 1;
    let mut journal: Vec<Event> = vec![Event::at(chrono::Utc::now(), EventPayload::ServerStart { server_uid: "uid".into() })];
    let mut inc = new_inc(1);
    let mut live: Vec<u32> = Vec::new();
    let mut n_added = 0u32;
    let mut restarts = 0u32;
    for (step, op) in ops.iter().enumerate() {
        match op {
            Op::Add => {
                n_added += 1;
                let before = mentioned(&journal);
                let id = inc.lab.add_queue(params(n_added), Box::new(NoBatch), None, 3);
                c(&mut rep, "queue_ids_issued");
                if restarts > 0 {
                    c(&mut rep, "queue_ids_issued_after_restart");
                }
                if before.contains(&id) {
                    if !rep.violations.iter().any(|v| v.0 == "I1-queue-id-reissued") {
                        rep.violations.push((
                            "I1-queue-id-reissued".into(),
                            format!("step {step}: queue id {id} was issued after {restarts} restart(s) although the journal already mentions queue ids {before:?} (live queues {live:?})"),
                        ));
                    }
                }
                live.push(id);
            }
            Op::Remove { idx, force } => {
                if !live.is_empty() {
                    let id = live.remove(*idx % live.len());
                    if let Err(e) = inc.lab.remove_queue(id, *force).await {
                        rep.violations.push(("H-harness".into(), format!("remove_queue({id}) failed: {e}")));
                    }
                    c(&mut rep, "queues_removed");
                }
            }
            Op::Restart { drop_tail } => {
                // drain the events of the old incarnation first
                while let Ok(m) = inc.ev_rx.try_recv() {
                    if let EventStreamMessage::Event(e) = m {
                        journal.push(e);
                    }
                }
                let keep = journal.len().saturating_sub(*drop_tail).max(1);
                if keep < journal.len() {
                    c(&mut rep, "restarts_with_lost_tail");
                }
                journal.truncate(keep);
                let path = tmp.join("queueids.journal");
                let _ = std::fs::remove_file(&path);
                let w = (|| -> anyhow::Result<()> {
                    let mut w = JournalWriter::create(&path)?;
                    for e in &journal {
                        w.store(e.clone())?;
                    }
                    w.finish()?;
                    Ok(())
                })();
                if let Err(e) = w {
                    rep.violations.push(("H-harness".into(), format!("journal write failed: {e:?}")));
                    return rep;
                }
                let loaded = match hyperqueue::server::verif::load_journal(&path) {
                    Ok(l) => l,
                    Err(e) => {
                        rep.violations.push(("I0-journal-does-not-load".into(), format!("step {step}: {e:?}")));
                        return rep;
                    }
                };
                let counter = loaded.queue_id_counter();
                let mut next = new_inc(counter);
                let state_ref = StateRef::new(ServerInfo {
                    server_uid: "uid".into(),
                    client_host: "h".into(),
                    worker_host: "h".into(),
                    client_port: 1,
                    worker_port: 2,
                    version: "hqv".into(),
                    pid: 0,
                    start_date: chrono::Utc::now(),
                    journal_path: None,
                });
                let out = match loaded.restore(&state_ref, &next._server.server_ref()) {
                    Ok(o) => o,
                    Err(e) => {
                        rep.violations.push(("I0-journal-does-not-restore".into(), format!("step {step}: {e:?}")));
                        return rep;
                    }
                };
                let expect_live = live_by_fold(&journal);
                let got_live: BTreeSet<u32> = out.queues.iter().map(|q| q.queue_id).collect();
                if got_live != expect_live {
                    rep.violations.push(("I3-restored-queue-set".into(), format!("step {step}: restored queues {got_live:?}, the journal prefix says {expect_live:?}")));
                }
                let m = mentioned(&journal);
                if let Some(max) = m.iter().max() {
                    if counter <= *max && !rep.violations.iter().any(|v| v.0 == "I2-restored-queue-counter-too-low") {
                        rep.violations.push(("I2-restored-queue-counter-too-low".into(), format!("step {step}: restored queue id counter {counter}, the journal mentions {m:?}")));
                    }
                }
                // the order in which start_server re-adds the queues is the restorer's (map) order
                for q in out.queues {
                    next.lab.add_restored_queue(q.params, q.queue_id, Box::new(NoBatch), q.worker_resources, 3);
                    c(&mut rep, "queues_restored");
                }
                live = expect_live.into_iter().collect();
                journal.push(Event::at(chrono::Utc::now(), EventPayload::ServerStart { server_uid: "uid".into() }));
                inc = next;
                restarts += 1;
                c(&mut rep, "restarts");
                if m.len() > live.len() {
                    c(&mut rep, "restarts_after_queue_removal");
                }
            }
        }
        while let Ok(m) = inc.ev_rx.try_recv() {
            if let EventStreamMessage::Event(e) = m {
                journal.push(e);
            }
        }
    }
    rep
}

/// Worker-id part: small journals are written directly (connects, a submit, single- and
/// multi-node task starts on chosen workers, losses with all reasons), pruned by the real journal
/// thread with the live sets the server would pass (connected workers, the unfinished job) and
/// restored; the id the restarted server would give to the next worker must not be mentioned
/// anywhere in the journal it was restored from - pruned or not.
pub fn run_worker_case(seed: u64, tmp: &std::path::Path) -> Rep {
    use crate::sim::types::*;
    use tako::gateway::LostWorkerReason;
    let mut rep = Rep { violations: vec![], cov: BTreeMap::new() };
    let mut rng = Rng::new(seed);
    let now = chrono::Utc::now();
    let mut events: Vec<Event> = vec![Event::at(now, EventPayload::ServerStart { server_uid: "uid".into() })];
    let k = rng.range(2, 7) as u32;
    let first = rng.range(1, 3) as u32;
    let ids: Vec<u32> = (0..k).map(|i| first + i + if rng.chance(20, 100) { 1 } else { 0 } * i.min(1)).collect();
    let mut ids: Vec<u32> = ids;
    ids.sort_unstable();
    ids.dedup();
    for id in &ids {
        let cfg = crate::sim::conv::worker_configuration(&WorkerSpec { resources: vec![ResSpec { name: "cpus".into(), kind: ResKind::Range(4) }], group: "g".into(), time_limit_s: None }, *id);
        events.push(Event::at(now, EventPayload::WorkerConnected((*id).into(), Box::new(cfg))));
    }
    let n_tasks = rng.range(1, 3) as u32;
    let req = crate::sim::conv::submit_request(
        None,
        None,
        &SubmitSpec::Array {
            ids: Some((0..n_tasks).collect()),
            entries: None,
            req: ReqSpec { variants: vec![VariantSpec { n_nodes: 0, min_time_s: 0, entries: vec![EntrySpec { resource: "cpus".into(), policy: Policy::Compact, amount: 10_000 }] }] },
            attrs: TaskAttrs { prio: 0, time_limit_s: None, crash: CrashSpec::Max(5) },
        },
    );
    let Ok(serialized_desc) = hyperqueue::common::serialization::Serialized::new(&req) else {
        rep.violations.push(("H-harness".into(), "cannot serialize a submit".into()));
        return rep;
    };
    events.push(Event::at(now, EventPayload::Submit { job_id: 1.into(), closed_job: true, serialized_desc }));
    for t in 0..n_tasks {
        if rng.chance(80, 100) {
            let n = rng.range(1, 3.min(ids.len() as u64)) as usize;
            let mut ws = ids.clone();
            rng.shuffle(&mut ws);
            ws.truncate(n);
            ws.sort_unstable();
            if n > 1 {
                *rep.cov.entry("multinode_task_starts_written".into()).or_insert(0) += 1;
            }
            events.push(Event::at(
                now,
                EventPayload::TaskStarted { task_id: tako::TaskId::new(1.into(), t.into()), instance_id: 0.into(), worker_ids: ws.iter().map(|w| (*w).into()).collect(), rv_id: 0.into() },
            ));
        }
    }
    let mut live: BTreeSet<u32> = ids.iter().copied().collect();
    for id in &ids {
        if rng.chance(70, 100) {
            let reason = match rng.below(5) {
                0 => LostWorkerReason::Stopped,
                1 => LostWorkerReason::ConnectionLost,
                2 => LostWorkerReason::HeartbeatLost,
                3 => LostWorkerReason::IdleTimeout,
                _ => LostWorkerReason::TimeLimitReached,
            };
            live.remove(id);
            events.push(Event::at(now, EventPayload::WorkerLost((*id).into(), reason)));
        }
    }
    let mentioned = |evs: &[Event]| -> BTreeSet<u32> {
        let mut m = BTreeSet::new();
        for e in evs {
            match &e.payload {
                EventPayload::WorkerConnected(w, _) | EventPayload::WorkerLost(w, _) => {
                    m.insert(w.as_num());
                }
                EventPayload::TaskStarted { worker_ids, .. } => m.extend(worker_ids.iter().map(|w| w.as_num())),
                _ => {}
            }
        }
        m
    };
    let path = tmp.join("workerids.journal");
    let _ = std::fs::remove_file(&path);
    let w = (|| -> anyhow::Result<()> {
        let mut w = JournalWriter::create(&path)?;
        for e in &events {
            w.store(e.clone())?;
        }
        w.finish()?;
        Ok(())
    })();
    if w.is_err() {
        rep.violations.push(("H-harness".into(), "journal write failed".into()));
        return rep;
    }
    for pruned in [false, true] {
        if pruned {
            let live_workers: Vec<u32> = live.iter().copied().collect();
            if let Err(e) = crate::journal::prune_via_thread(&path, &[], &[1], &live_workers, &[], false) {
                rep.violations.push(("U0-prune-failed".into(), e));
                return rep;
            }
        }
        let Ok(evs) = crate::journal::read_all(&path) else {
            rep.violations.push(("U1-journal-malformed".into(), format!("pruned={pruned}")));
            return rep;
        };
        let m = mentioned(&evs);
        match crate::journal::restore_file(&path) {
            Err(e) => rep.violations.push(("I0-journal-does-not-restore".into(), format!("pruned={pruned}: {e}"))),
            Ok(r) => {
                *rep.cov.entry("worker_id_marks_checked".into()).or_insert(0) += 1;
                if pruned && m.len() < mentioned(&events).len() + 0 && evs.len() < events.len() {
                    *rep.cov.entry("worker_id_marks_checked_on_pruned_journals".into()).or_insert(0) += 1;
                }
                let next = r.worker_id_counter + 1;
                if let Some(max) = m.iter().max() {
                    if next <= *max {
                        rep.violations.push((
                            "I2-worker-id-reuse".into(),
                            format!("{} journal mentions workers {m:?}; after a restart the next worker gets id {next}", if pruned { "pruned" } else { "unpruned" }),
                        ));
                    }
                }
            }
        }
    }
    rep
}

pub fn main(args: &[String]) -> i32 {
    let a = Args::parse(args);
    let prop = a.get("prop").unwrap_or("C11").to_string();
    let seed = a.u64("seed", 1);
    let shard = a.u64("shard", 0);
    let max_runs = a.u64("runs", 1000);
    let secs = a.u64("secs", 30);
    let out = a.get("out").unwrap_or("/dev/stdout").to_string();
    let replay_dir = a.get("replays").unwrap_or("/verif/replays").to_string();
    let only_regress = a.get("only-regress").is_some();
    let start = Instant::now();
    let deadline = start + Duration::from_secs(secs);
    let tmp = std::path::PathBuf::from(std::env::var("HQV_TMP").unwrap_or_else(|_| "/tmp".into())).join(format!("hqv-queueids-{}", std::process::id()));
    std::fs::create_dir_all(&tmp).unwrap();
    let rt = tokio::runtime::Builder::new_current_thread().enable_time().start_paused(true).build().unwrap();
    let mut runs = 0u64;
    let mut held = 0u64;
    let mut violated = 0u64;
    let mut steps = 0u64;
    let mut cov: BTreeMap<String, u64> = BTreeMap::new();
    let mut hashes: BTreeSet<u64> = BTreeSet::new();
    let mut violations = Vec::new();
    let mut seen = BTreeSet::new();
    let mut samples = Vec::new();
    let mut inconclusive: BTreeMap<String, u64> = BTreeMap::new();
    let mut regress: Vec<(Vec<Op>, Option<u64>)> = Vec::new();
    if shard == 0 {
        if let Some(dir) = a.get("regress") {
            let mut files: Vec<_> = std::fs::read_dir(dir).map(|d| d.filter_map(|e| e.ok()).map(|e| e.path()).collect()).unwrap_or_default();
            files.sort();
            for f in files {
                if !f.file_name().unwrap().to_string_lossy().starts_with("C11") {
                    continue;
                }
                if let Ok(v) = serde_json::from_str::<serde_json::Value>(&std::fs::read_to_string(&f).unwrap_or_default()) {
                    if let Ok(ops) = serde_json::from_value::<Vec<Op>>(v["case"]["queue_ops"].clone()) {
                        regress.push((ops, v["case"]["worker_case_seed"].as_u64()));
                    }
                }
            }
        }
    }
    let n_regress = regress.len();
    let mut regress = regress.into_iter();
    let mut i = 0u64;
    while i < max_runs && Instant::now() < deadline {
        let s = rng::hash3(seed, shard ^ 0x9e, i);
        i += 1;
        let next = regress.next();
        if next.is_none() && only_regress {
            break;
        }
        let replayed_worker_seed = next.as_ref().and_then(|n| n.1);
        let worker_case = replayed_worker_seed.is_some() || (next.is_none() && i % 10 == 0);
        let s = replayed_worker_seed.unwrap_or(s);
        let ops = if worker_case { Vec::new() } else { next.map(|n| n.0).unwrap_or_else(|| gen_ops(s)) };
        runs += 1;
        steps += ops.len() as u64 + worker_case as u64 * 12;
        let _ = crate::panics::take();
        let local = tokio::task::LocalSet::new();
        let r = if worker_case {
            std::panic::catch_unwind(std::panic::AssertUnwindSafe(|| run_worker_case(s, &tmp)))
        } else {
            std::panic::catch_unwind(std::panic::AssertUnwindSafe(|| local.block_on(&rt, run_ops(&ops, &tmp))))
        };
        drop(local);
        let rep = match r {
            Ok(rep) => rep,
            Err(_) => {
                let p = crate::panics::take();
                let sig = p.first().map(crate::panics::signature).unwrap_or_else(|| "unknown".into());
                Rep { violations: vec![(format!("P-panic:{sig}"), format!("panic while creating/removing/restoring queues: {sig}"))], cov: BTreeMap::new() }
            }
        };
        for (k, n) in &rep.cov {
            *cov.entry(k.clone()).or_insert(0) += n;
        }
        if rep.violations.iter().any(|v| v.0 == "H-harness") {
            *inconclusive.entry("harness-error".into()).or_insert(0) += 1;
            continue;
        }
        if rep.violations.is_empty() {
            held += 1;
        } else {
            violated += 1;
            for (rule, detail) in &rep.violations {
                if seen.insert(rule.clone()) {
                    let path = save_replay_value(&replay_dir, &prop, rule, s, &json!({"queue_ops": ops, "worker_case_seed": if worker_case { Some(s) } else { None }}));
                    violations.push(json!({"signature": rule, "detail": detail, "seed": s, "source": "generated", "replay": path}));
                }
            }
        }
        if rep.cov.get("queue_ids_issued_after_restart").copied().unwrap_or(0) > 0 {
            hashes.insert(rng::mix(s ^ 0x11));
            if samples.len() < 2 {
                samples.push(json!({"seed": s, "queue_ops": ops, "observed": rep.cov}));
            }
        }
    }
    let _ = std::fs::remove_dir_all(&tmp);
    let summary = json!({
        "prop": prop, "shard": shard, "seed": seed, "runs": runs, "steps": steps,
        "verdicts": {"held": held, "violated": violated},
        "inconclusive": inconclusive,
        "nontrivial": hashes.len(),
        "hashes": hashes.iter().collect::<Vec<_>>(),
        "coverage": cov,
        "violations": violations,
        "samples": samples,
        "regress_replayed": n_regress,
        "rule": "queue-id lab: random sequences (4-24 operations) of queue creation, queue removal (forced or not) and restarts - optionally losing the last 1-3 journal records - through the real autoalloc state, JournalWriter, StateRestorer and the re-adding of restored queues with their ids; every id issued is compared with all queue ids the journal mentions at that moment; non-trivial = an id was issued after a restart. Every tenth case is a worker-id case: a small journal written directly (2-7 worker connects with or without id gaps, a submit, single- and multi-node task starts on chosen workers, losses with every reason) is pruned by the real journal thread with the live sets the server would pass and restored, pruned and unpruned; the next worker id must not be mentioned in the journal",
        "minima": {"queue_ids_issued_after_restart": 150, "restarts_after_queue_removal": 100, "restarts_with_lost_tail": 40, "worker_id_marks_checked": 200, "multinode_task_starts_written": 50},
        "assumptions": [
            "queue-id lab: queues are re-added after a restart through tako/hq hooks that restate the loop in bootstrap::start_server (AutoAllocState::new(restored counter), add_queue(queue, Some(id)) per restored queue)",
            "queue-id lab: the batch system handler is a stub (no allocation is ever submitted), so only queue events are in these journals",
            "worker-id cases: the journals are written by the lab with real event payloads (a real serialized submit), not produced by a running server; they are journals the server can produce (a multi-node task on any of its workers, workers lost for any reason, prune afterwards)"
        ],
        "wall_s": start.elapsed().as_secs_f64(),
    });
    std::fs::write(&out, serde_json::to_string(&summary).unwrap()).unwrap();
    0
}
