//! Small deterministic PRNG (splitmix64). All random choices of the harness come from here.

#[derive(Clone, Debug)]
pub struct Rng(pub u64);

pub fn mix(mut z: u64) -> u64 {
    z = z.wrapping_add(0x9E3779B97F4A7C15);
    z = (z ^ (z >> 30)).wrapping_mul(0xBF58476D1CE4E5B9);
    z = (z ^ (z >> 27)).wrapping_mul(0x94D049BB133111EB);
    z ^ (z >> 31)
}

pub fn hash3(a: u64, b: u64, c: u64) -> u64 {
    mix(mix(mix(a) ^ b.wrapping_mul(0x9E3779B97F4A7C15)) ^ c.wrapping_mul(0xD1B54A32D192ED03))
}

impl Rng {
    pub fn new(seed: u64) -> Self {
        Rng(mix(seed ^ 0x5851F42D4C957F2D))
    }

    pub fn next_u64(&mut self) -> u64 {
        self.0 = self.0.wrapping_add(0x9E3779B97F4A7C15);
        let mut z = self.0;
        z = (z ^ (z >> 30)).wrapping_mul(0xBF58476D1CE4E5B9);
        z = (z ^ (z >> 27)).wrapping_mul(0x94D049BB133111EB);
        z ^ (z >> 31)
    }

    /// Uniform in 0..n (n > 0).
    pub fn below(&mut self, n: u64) -> u64 {
        debug_assert!(n > 0);
        self.next_u64() % n
    }

    pub fn usize_below(&mut self, n: usize) -> usize {
        self.below(n as u64) as usize
    }

    /// Uniform in a..=b.
    pub fn range(&mut self, a: u64, b: u64) -> u64 {
        a + self.below(b - a + 1)
    }

    pub fn chance(&mut self, num: u64, den: u64) -> bool {
        self.below(den) < num
    }

    pub fn pick<'a, T>(&mut self, items: &'a [T]) -> &'a T {
        &items[self.usize_below(items.len())]
    }

    pub fn pick_weighted(&mut self, weights: &[u32]) -> usize {
        let total: u64 = weights.iter().map(|w| *w as u64).sum();
        let mut x = self.below(total.max(1));
        for (i, w) in weights.iter().enumerate() {
            if x < *w as u64 {
                return i;
            }
            x -= *w as u64;
        }
        weights.len() - 1
    }

    pub fn shuffle<T>(&mut self, items: &mut [T]) {
        for i in (1..items.len()).rev() {
            let j = self.usize_below(i + 1);
            items.swap(i, j);
        }
    }

    pub fn fork(&mut self) -> Rng {
        Rng::new(self.next_u64())
    }
}
