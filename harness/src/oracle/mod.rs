//! Monitors of the E1 simulation (C01-C03, C05-C09, C13, C14).

use std::collections::BTreeMap;

use crate::sim::core::Sim;
use crate::sim::run::Violation;
use crate::sim::types::*;

#[derive(Default)]
pub struct Monitors {
    pub coverage: BTreeMap<String, u64>,
}

impl Monitors {
    pub fn new() -> Monitors {
        Monitors::default()
    }

    pub fn count(&mut self, key: &str, n: u64) {
        *self.coverage.entry(key.to_string()).or_insert(0) += n;
    }

    pub fn after_step(&mut self, _sim: &Sim, new: &[(u32, Obs)], _out: &mut Vec<Violation>) {
        for (_, o) in new {
            let k = match o {
                Obs::Action(_) => "obs.action",
                Obs::ExecStart { .. } => "obs.exec_start",
                Obs::ExecEnd { .. } => "obs.exec_end",
                Obs::Journal(_) => "obs.journal",
                Obs::CbWorkerLost { .. } => "obs.worker_lost",
                _ => "obs.other",
            };
            self.count(k, 1);
        }
    }

    pub fn drain_started(&mut self, _sim: &Sim) {}

    pub fn at_end(&mut self, _sim: &Sim, _quiescent: bool, _out: &mut Vec<Violation>) {}
}
