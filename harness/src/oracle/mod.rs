//! Monitors of the E1 simulation (C01-C03, C05-C09, C13, C14).
//!
//! Every rule is tied to a sentence of a property statement (see DESIGN.md §5). Rules look at
//! (a) the observation log of the step that just ended, (b) plain-data snapshots of the core and
//! of the HQ job state taken at the step boundary (= where another party could observe them).

use std::collections::{BTreeMap, BTreeSet};

use tako::verif::{CoreSnapshot, TaskStateSnapshot, WorkerAssignmentSnapshot};

use crate::sim::conv;
use crate::sim::core::{ClientState, Sim};
use crate::sim::run::Violation;
use crate::sim::types::*;

#[derive(Clone, Debug, PartialEq, Eq)]
enum Auto {
    Accepted,
    Started { root: Wid, workers: Vec<Wid>, instance: u32 },
    Terminal(&'static str),
}

#[derive(Default, Clone)]
struct TaskInfo {
    deps: Vec<Tid>,
    n_nodes: u32,
    known_spec: bool,
    /// the time limit the client asked for (None = no limit)
    time_limit_s: Option<u64>,
    /// the crash limit the client asked for
    crash: Option<CrashSpec>,
    /// the resource request the client asked for
    req: Option<ReqSpec>,
    /// submitted when one of its (transitive) dependencies had already failed / been canceled
    late_dependent: bool,
}

#[derive(Default)]
pub struct Monitors {
    pub coverage: BTreeMap<String, u64>,
    step: u32,
    prev_core: Option<CoreSnapshot>,
    prev_jobs: Vec<JobLite>,
    // per incarnation state (reset on restart where noted)
    auto: BTreeMap<Tid, Auto>,
    ever_started_ev: BTreeSet<Tid>,
    last_started_instance: BTreeMap<Tid, u32>,
    max_journal_instance: BTreeMap<Tid, u32>,
    journal_seq: Vec<Ev>,
    live_seq: Vec<Ev>,
    tasks: BTreeMap<Tid, TaskInfo>,
    job_max_fails: BTreeMap<Jid, Option<u32>>,
    job_failed: BTreeMap<Jid, u32>,
    job_completed_events: BTreeMap<Jid, u32>,
    finished_tasks: BTreeSet<Tid>,
    bad_terminal: BTreeSet<Tid>, // failed / canceled / aborted
    // C06/C08 per (worker, task)
    credit: BTreeMap<(Wid, Tid), bool>,
    canceled_on: BTreeSet<(Wid, Tid)>,
    retract_confirmed: BTreeSet<(Wid, Tid)>,
    exec_instances: BTreeMap<Tid, Vec<(u32, Wid)>>,
    // C07
    hq_running: BTreeMap<Tid, Wid>,
    ref_crash: BTreeMap<Tid, u32>,
    /// C07 L4: tasks that were reserved on a lost worker by a redirect while another worker was
    /// still asked to give them back; watched until they are schedulable again
    requeue_watch: BTreeSet<tako::TaskId>,
    /// C08 K6: the other members of the last RetractTasks message that named a task
    retracted_with: BTreeMap<Tid, Vec<Tid>>,
    /// C08 K4: how the last execution that ended on a worker ended
    last_end_on: BTreeMap<Wid, (EndHow, Tid)>,
    // C08
    canceled_tasks: BTreeSet<Tid>,
    // C14
    aborted_by_limit_jobs: BTreeSet<Jid>,
    // C03
    exec_started: BTreeSet<Tid>,
    // mn placement tracking
    mn_sets: BTreeMap<Tid, Vec<Wid>>,
    // restart
    kept_finished: BTreeSet<Tid>,
    restarted: bool,
    ids_in_kept_journal: (BTreeSet<u32>, BTreeSet<u32>),
    /// workers whose server-side free-resource accounting drifted after the known overbooking
    /// event (backlog start after release); cleared when the accounting is exact again
    drifted_workers: BTreeSet<Wid>,
    pub history_hash: u64,
    pub kinds_seen: BTreeSet<&'static str>,
}

fn viol(out: &mut Vec<Violation>, step: u32, prop: &str, rule: &str, detail: String) {
    // one report per (prop, rule) per run keeps the output readable
    if out.iter().any(|v| v.prop == prop && v.rule == rule) {
        return;
    }
    out.push(Violation {
        prop: prop.to_string(),
        rule: rule.to_string(),
        detail,
        step,
    });
}

fn job_of<'a>(jobs: &'a [JobLite], j: Jid) -> Option<&'a JobLite> {
    jobs.iter().find(|x| x.id == j)
}

fn task_state<'a>(jobs: &'a [JobLite], t: Tid) -> Option<&'a TaskStateLite> {
    job_of(jobs, t.0).and_then(|j| j.tasks.iter().find(|x| x.0 == t.1).map(|x| &x.1))
}

impl Monitors {
    pub fn new() -> Monitors {
        Monitors::default()
    }

    pub fn count(&mut self, key: &str, n: u64) {
        *self.coverage.entry(key.to_string()).or_insert(0) += n;
    }

    fn mix(&mut self, v: u64) {
        self.history_hash = crate::rng::mix(self.history_hash ^ v.wrapping_mul(0x9E3779B97F4A7C15));
    }

    /* --------------------------------------------------------------------------------------- */

    pub fn after_step(&mut self, sim: &Sim, new: &[(u32, Obs)], out: &mut Vec<Violation>) {
        self.step = new.first().map(|x| x.0).unwrap_or(self.step);
        let step = self.step;
        let core = sim.core_snapshot();
        let jobs = sim.jobs();
        let prev_jobs = std::mem::take(&mut self.prev_jobs);
        let prev_core = self.prev_core.take();

        let mut action: Option<Action> = None;
        let mut journal_this_step: Vec<Ev> = Vec::new();
        let mut lost_cb: Vec<(Wid, Vec<Tid>, Reason, BTreeSet<Tid>)> = Vec::new();
        let mut errors_this_step: Vec<(Tid, String, Vec<Tid>)> = Vec::new();
        let mut stops_this_step: BTreeSet<usize> = BTreeSet::new();
        let mut cancel_delivered: Vec<(Wid, Vec<Tid>)> = Vec::new();
        let mut srv_got_updates: Vec<UpdateLite> = Vec::new();
        let mut srv_cancel_sent: BTreeSet<Tid> = BTreeSet::new();
        let mut srv_cancel_sent_to: BTreeSet<(Wid, Tid)> = BTreeSet::new();
        let mut restarted_now = false;

        for (_, o) in new {
            match o {
                Obs::Action(a) => {
                    action = Some(a.clone());
                    let k = match a {
                        Action::Connect(_) => 1,
                        Action::Kill { .. } => 2,
                        Action::ToWorker { .. } => 3,
                        Action::ToServer { .. } => 4,
                        Action::CloseLink { .. } => 5,
                        Action::Sched => 6,
                        Action::Finish { ok, .. } => 7 + *ok as u64,
                        Action::Advance { .. } => 9,
                        Action::ArmLaunchFail { .. } => 10,
                        Action::AgeWorker { .. } => 17,
                        Action::ArmSlowStop { .. } => 18,
                        Action::Partition { .. } => 19,
                        Action::HangUp { .. } => 20,
                        Action::Req { .. } => 11,
                        Action::AnswerFlush => 12,
                        Action::AnswerPrune => 13,
                        Action::Crash { .. } => 14,
                    };
                    self.mix(k);
                }
                Obs::Restart { .. } => {
                    restarted_now = true;
                }
                Obs::Journal(e) => {
                    if !matches!(e, Ev::ServerStart) {
                        journal_this_step.push(e.clone());
                    }
                    self.journal_seq.push(e.clone());
                    self.on_journal_event(e, step, out);
                }
                Obs::Live(e) => {
                    if !matches!(e, Ev::JobIdle(_) | Ev::Other) {
                        self.live_seq.push(e.clone());
                    }
                }
                Obs::CbStarted { t, workers, .. } => {
                    if let Some(w) = workers.first() {
                        self.hq_running.insert(*t, *w);
                    }
                    self.count("cb.started", 1);
                }
                Obs::CbFinished { t } => {
                    self.hq_running.remove(t);
                }
                Obs::CbError { t, msg, cancel, consumers } => {
                    self.hq_running.remove(t);
                    for c in cancel {
                        self.hq_running.remove(c);
                    }
                    errors_this_step.push((*t, msg.clone(), consumers.clone()));
                }
                Obs::CbWorkerLost { w, running, reason } => {
                    // what was reported running on `w` at this very moment
                    let expected: BTreeSet<Tid> = self
                        .hq_running
                        .iter()
                        .filter(|(_, root)| **root == *w)
                        .map(|(t, _)| *t)
                        .collect();
                    lost_cb.push((*w, running.clone(), *reason, expected));
                }
                Obs::ExecStart { exec: _, w, t, instance, rv, alloc, nodes, .. } => {
                    // C04-A3 end to end: what the worker allocated for the execution is what the
                    // CLIENT asked for in the variant the task was started in (not what some
                    // message or the server's request map says)
                    if let (Some(req), true) = (self.tasks.get(t).filter(|i| i.known_spec).and_then(|i| i.req.clone()), nodes.is_empty()) {
                        if let Some(v) = req.variants.get(*rv as usize) {
                            let names = &core.resource_names;
                            for e in &v.entries {
                                let rid = names.iter().position(|n| *n == e.resource);
                                let got = rid.and_then(|rid| alloc.resources.iter().find(|r| r.0 as usize == rid)).map(|r| r.1);
                                let want = if e.policy == Policy::All {
                                    sim.workers.get(w).and_then(|h| h.spec.resources.iter().find(|r| r.name == e.resource).map(|r| r.kind.size()))
                                } else {
                                    Some(e.amount)
                                };
                                self.count("ledger.exec_allocations_compared_with_submitted_request", 1);
                                if got != want {
                                    viol(
                                        out,
                                        step,
                                        "C04",
                                        "A3-allocation-differs-from-submitted-request",
                                        format!("task {t:?} was submitted asking {:?} of {} (variant {rv}), worker {w} started it with {got:?}", want, e.resource),
                                    );
                                }
                            }
                            if alloc.resources.len() != v.entries.len() {
                                viol(out, step, "C04", "A3-allocation-differs-from-submitted-request", format!("task {t:?}: variant {rv} asks for {} resources, the allocation holds {}", v.entries.len(), alloc.resources.len()));
                            }
                        } else {
                            viol(out, step, "C04", "A3-allocation-differs-from-submitted-request", format!("task {t:?} was started in variant {rv}, its request has {} variants", req.variants.len()));
                        }
                    }
                    self.count("exec.start", 1);
                    self.mix(100 + *w as u64);
                    self.on_exec_start(*w, *t, *instance, step, out);
                }
                Obs::ExecStop { exec, timeout } => {
                    stops_this_step.insert(*exec);
                    if *timeout {
                        self.count("exec.timeout", 1);
                        // stopped for its time limit: only a task that has one, and not before it elapsed
                        let (t, start_s, vnow) = {
                            let sh = sim.shared.borrow();
                            (sh.execs[*exec].t, sh.execs[*exec].start_s, sh.vnow_s)
                        };
                        if let Some(info) = self.tasks.get(&t).filter(|i| i.known_spec) {
                            let early = match info.time_limit_s {
                                None => true,
                                Some(l) => vnow < start_s + l,
                            };
                            if early {
                                viol(
                                    out,
                                    step,
                                    "C01",
                                    "R5-stopped-for-a-time-limit-it-does-not-have",
                                    format!("task {t:?} (submitted with time limit {:?}s, started at {start_s}s) was stopped for its time limit at {vnow}s", info.time_limit_s),
                                );
                            }
                        }
                    } else {
                        self.count("exec.cancel_signal", 1);
                    }
                }
                Obs::ExecEnd { exec, how } => {
                    let (w, t) = {
                        let sh = sim.shared.borrow();
                        (sh.execs[*exec].w, sh.execs[*exec].t)
                    };
                    self.last_end_on.insert(w, (how.clone(), t));
                }
                Obs::LaunchFail { .. } => self.count("launch_fail", 1),
                // 0 = solved to optimality; 1 / 2 = the solver ran into its wall-clock limit
                // (non-optimal placement / no placement at all): real time leaked into the run
                Obs::Sched { result, .. } => self.count(&format!("sched.result.{result}"), 1),
                Obs::SrvSent { w: to_w, m } => match m {
                    ToWorkerLite::Cancel(ids) => {
                        for t in ids {
                            srv_cancel_sent.insert(*t);
                            srv_cancel_sent_to.insert((*to_w, *t));
                        }
                    }
                    ToWorkerLite::Retract(ids) => {
                        self.count("retract.sent", ids.len() as u64);
                        self.count("retract.messages", 1);
                        if ids.iter().any(|t| t.0 != ids[0].0) {
                            self.count("retract.messages_naming_two_jobs", 1);
                        }
                        // remembered for C08 K6: who was asked back together with whom
                        for t in ids {
                            self.retracted_with.insert(*t, ids.clone());
                        }
                    }
                    ToWorkerLite::Compute(ts) => {
                        // the server hands out a task whose final outcome it has already announced
                        for (t, _, _, _) in ts {
                            if let Some(Auto::Terminal(kind)) = self.auto.get(t) {
                                let (prop, rule) = match *kind {
                                    "canceled" => ("C08", "K1-dispatched-after-cancel"),
                                    "aborted" if self.aborted_by_limit_jobs.contains(&t.0) => ("C14", "M4-dispatched-after-limit-abort"),
                                    "aborted" => ("C03", "D2-aborted-dependent-dispatched"),
                                    _ => ("C01", "R2-dispatched-after-terminal-outcome"),
                                };
                                viol(out, step, prop, rule, format!("the server sent ComputeTasks for {t:?} to worker {to_w} after the task had been announced as {kind}"));
                            }
                        }
                        self.count("compute.sent", ts.len() as u64);
                        self.count(
                            "prefill.sent",
                            ts.iter().filter(|t| t.2.is_none()).count() as u64,
                        );
                    }
                    _ => {}
                },
                Obs::WorkerGot { w, m } => match m {
                    ToWorkerLite::Compute(ts) => {
                        for (t, _, _, _) in ts {
                            self.credit.insert((*w, *t), true);
                            self.retract_confirmed.remove(&(*w, *t));
                        }
                    }
                    ToWorkerLite::Cancel(ids) => {
                        for t in ids {
                            self.credit.insert((*w, *t), false);
                            self.canceled_on.insert((*w, *t));
                        }
                        cancel_delivered.push((*w, ids.clone()));
                    }
                    _ => {}
                },
                Obs::WorkerSent { w, m } => {
                    if let FromWorkerLite::RetractResponse(ids) = m {
                        self.count("retract.confirmed", ids.len() as u64);
                        for t in ids {
                            self.credit.insert((*w, *t), false);
                            self.retract_confirmed.insert((*w, *t));
                        }
                    }
                    if let FromWorkerLite::Updates(ups) = m {
                        for u in ups {
                            match u {
                                UpdateLite::Reject(..) => self.count("reject", 1),
                                UpdateLite::Enable(..) => self.count("enable_request", 1),
                                UpdateLite::RunningPrefilled(..) => {
                                    self.count("running_prefilled", 1)
                                }
                                _ => {}
                            }
                        }
                    }
                }
                Obs::SrvGot { m, .. } => {
                    if let FromWorkerLite::Updates(ups) = m {
                        srv_got_updates.extend(ups.iter().cloned());
                    }
                    // coverage: (core task state, message kind) pairs
                    if let (Some(pc), FromWorkerLite::Updates(ups)) = (&prev_core, m) {
                        for u in ups {
                            let (t, kind) = match u {
                                UpdateLite::Finished(t) => (*t, "finished"),
                                UpdateLite::Failed(t, _) => (*t, "failed"),
                                UpdateLite::Running(t, _) => (*t, "running"),
                                UpdateLite::RunningPrefilled(t, _) => (*t, "running_prefilled"),
                                UpdateLite::Reject(t, _) => (*t, "reject"),
                                UpdateLite::Enable(..) => continue,
                            };
                            let st = pc
                                .tasks
                                .iter()
                                .find(|x| conv::tid(x.id) == t)
                                .map(|x| state_name(&x.state))
                                .unwrap_or("gone");
                            self.count(&format!("pair.{st}.{kind}"), 1);
                            // a task started from the backlog while it is being retracted and already
                            // holds a reservation (redirect) - on the same worker ("dummy" redirect)?
                            if let (UpdateLite::RunningPrefilled(_, rv), "retracting") = (u, st) {
                                if let Some(r) = pc.redirects.iter().find(|r| conv::tid(r.0) == t) {
                                    let src = pc.tasks.iter().find(|x| conv::tid(x.id) == t).and_then(|x| match &x.state {
                                        TaskStateSnapshot::Retracting { worker_id } => Some(*worker_id),
                                        _ => None,
                                    });
                                    if src == Some(r.1) {
                                        self.count("redirect.backlog_start_on_redirect_target", 1);
                                        if r.2.as_num() as u32 != *rv {
                                            self.count("redirect.backlog_start_on_redirect_target.other_variant", 1);
                                        }
                                    } else {
                                        self.count("redirect.backlog_start_while_redirected_elsewhere", 1);
                                    }
                                }
                            }
                        }
                    }
                    if let (Some(pc), FromWorkerLite::RetractResponse(ids)) = (&prev_core, m) {
                        for t in ids {
                            let st = pc
                                .tasks
                                .iter()
                                .find(|x| conv::tid(x.id) == *t)
                                .map(|x| state_name(&x.state))
                                .unwrap_or("gone");
                            self.count(&format!("pair.{st}.retract_response"), 1);
                        }
                    }
                }
                Obs::Resp { c: _, r } => match r {
                    RespLite::SubmitRejected(_) => self.count("submit.rejected", 1),
                    RespLite::SubmitOk { .. } => self.count("submit.ok", 1),
                    _ => {}
                },
                _ => {}
            }
        }

        if restarted_now {
            self.on_restart(sim, step, out);
            self.prev_core = Some(core);
            self.prev_jobs = jobs;
            return;
        }

        // ---- C06-X1: one live execution per task on connected workers
        {
            let sh = sim.shared.borrow();
            let mut open: BTreeMap<Tid, Vec<Wid>> = BTreeMap::new();
            for e in sh.execs.iter().filter(|e| e.open) {
                if sim.workers.get(&e.w).map(|w| !w.stopped).unwrap_or(false) {
                    open.entry(e.t).or_default().push(e.w);
                }
            }
            for (t, ws) in open {
                if ws.len() > 1 {
                    viol(
                        out,
                        step,
                        "C06",
                        "X1-two-live-executions",
                        format!("task {t:?} executes on connected workers {ws:?}"),
                    );
                }
            }
        }

        // ---- C01-R5: time limit (virtual time)
        {
            let mut mismatches = 0u64;
            let sh = sim.shared.borrow();
            for (i, e) in sh.execs.iter().enumerate() {
                if !e.open || e.incarnation != sh.incarnation {
                    continue;
                }
                // the limit the CLIENT asked for (the limit that reached the worker inside the
                // ComputeTasks message is only what the worker was told)
                let asked = self.tasks.get(&e.t).filter(|i| i.known_spec).map(|i| i.time_limit_s);
                if let Some(asked) = asked {
                    if asked != e.time_limit_s {
                        // (a precursor only: it becomes a violation when the task outlives its
                        // limit or is stopped too early - both judged against what was asked)
                        mismatches += 1;
                    }
                }
                if let Some(l) = asked.unwrap_or(e.time_limit_s) {
                    if sh.vnow_s >= e.start_s + l && e.stopped.is_none() {
                        viol(
                            out,
                            step,
                            "C01",
                            "R5-time-limit-not-enforced",
                            format!(
                                "exec {i} of {:?} started at {}s with limit {}s still runs at {}s without a stop signal",
                                e.t, e.start_s, l, sh.vnow_s
                            ),
                        );
                    }
                }
            }
            drop(sh);
            self.count("exec.open_with_other_time_limit_than_asked", mismatches);
        }

        // ---- C08-K2 / C14-M3: open executions get Cancel when the worker processes CancelTasks
        {
            let sh = sim.shared.borrow();
            for (w, ids) in &cancel_delivered {
                for (i, e) in sh.execs.iter().enumerate() {
                    if e.w == *w && ids.contains(&e.t) && e.start_step < step {
                        // was it open when the message arrived? it is if it ended in this step
                        // by cancel or is still open
                        let ended_now_by_cancel = stops_this_step.contains(&i);
                        // (an execution that got its stop signal earlier and is still dying counts as told)
                        if e.open && !ended_now_by_cancel && e.stopped.is_none() {
                            let prop = if self.canceled_tasks.contains(&e.t) {
                                "C08"
                            } else {
                                "C14"
                            };
                            viol(
                                out,
                                step,
                                prop,
                                "K2-running-task-not-stopped",
                                format!("worker {w} processed CancelTasks for {:?} but execution {i} keeps running", e.t),
                            );
                        }
                        if ended_now_by_cancel {
                            self.count("cancel.hit_running_exec", 1);
                        }
                    }
                }
            }
        }

        // ---- C07: worker loss
        for (w, running, reason, expected) in &lost_cb {
            self.check_worker_loss(
                *w,
                running,
                *reason,
                expected,
                &errors_this_step,
                prev_core.as_ref(),
                &core,
                &jobs,
                step,
                out,
            );
        }

        // ---- C07-L2: crash counters equal the reference for every live task
        for t in &core.tasks {
            let id = conv::tid(t.id);
            let r = self.ref_crash.get(&id).copied().unwrap_or(0);
            if t.crash_counter != r {
                viol(
                    out,
                    step,
                    "C07",
                    "L2-crash-counter",
                    format!(
                        "task {id:?}: core crash counter {} but {} failure-type losses while running were observed",
                        t.crash_counter, r
                    ),
                );
            }
        }

        // ---- C02-S1: job task sets agree with the scheduler's
        self.check_task_sets(&core, &jobs, step, out);

        // ---- C01-R6 / C13-B1: user visible states
        self.check_job_bookkeeping(&jobs, step, out);

        // ---- C13-B2: completion
        self.check_completion(&jobs, step, out);

        // the failure limit the client asked for when it opened a job (the job appears in this step)
        if let Some(Action::Req { req: ClientReq::Open { max_fails }, .. }) = &action {
            let before: BTreeSet<Jid> = prev_jobs.iter().map(|j| j.id).collect();
            let new: Vec<Jid> = jobs.iter().map(|j| j.id).filter(|j| !before.contains(j)).collect();
            if new.len() == 1 {
                self.job_max_fails.insert(new[0], *max_fails);
            }
        }

        // ---- C13-B3: submits (request processed in this step)
        if let Some(Action::Req {
            req: ClientReq::Submit { job, max_fails, spec, .. },
            ..
        }) = &action
        {
            self.check_submit(
                *job,
                *max_fails,
                spec,
                &journal_this_step,
                &prev_jobs,
                &jobs,
                prev_core.as_ref(),
                &core,
                step,
                out,
            );
        }

        // ---- C08: cancel requests processed in this step
        if let Some(Action::Req {
            req: ClientReq::Cancel { job },
            ..
        }) = &action
        {
            self.check_cancel(
                *job,
                &journal_this_step,
                &prev_jobs,
                &jobs,
                prev_core.as_ref(),
                &core,
                step,
                out,
            );
            // K2: every worker that holds one of the canceled tasks (placed, running, in its
            // backlog or being retracted from it) is told - otherwise an execution in progress is
            // not stopped and a backlog task is started later
            if let (Some(pc), Some(pj)) = (prev_core.as_ref(), job_of(&prev_jobs, *job)) {
                for (id, st) in &pj.tasks {
                    if st.is_terminal() {
                        continue;
                    }
                    let t = (*job, *id);
                    let Some(ts) = pc.tasks.iter().find(|x| conv::tid(x.id) == t) else { continue };
                    let holder = match &ts.state {
                        TaskStateSnapshot::Assigned { worker_id, .. }
                        | TaskStateSnapshot::Running { worker_id, .. }
                        | TaskStateSnapshot::Prefilled { worker_id }
                        | TaskStateSnapshot::Retracting { worker_id } => Some(worker_id.as_num()),
                        TaskStateSnapshot::RunningMultiNode(ws) => ws.first().map(|w| w.as_num()),
                        _ => None,
                    };
                    let Some(w) = holder else { continue };
                    // the holder must still be connected after the step (a lost worker cannot be told)
                    if !core.workers.iter().any(|x| x.id.as_num() == w) {
                        continue;
                    }
                    self.count("cancel.holder_checked", 1);
                    if !srv_cancel_sent_to.contains(&(w, t)) {
                        viol(out, step, "C08", "K2-worker-not-told", format!("task {t:?} was {} on worker {w} when its job was canceled, but no CancelTasks naming it was sent to that worker", state_name(&ts.state)));
                    }
                }
            }
        }

        self.check_requeue_watch(&core, step, out);

        // ---- C14: max-fails
        // tasks a worker gave back (reject) in a message of this step: if the same message also
        // carries the failure that crosses the limit, they are not held any more when the job is aborted
        let rejected_now: BTreeSet<Tid> = srv_got_updates.iter().filter_map(|u| if let UpdateLite::Reject(t, _) = u { Some(*t) } else { None }).collect();
        self.check_max_fails(&journal_this_step, &prev_jobs, &jobs, prev_core.as_ref(), &srv_cancel_sent, &rejected_now, step, out);

        if std::env::var("HQV_DUMP_STEP").ok().and_then(|s| s.parse::<u32>().ok()) == Some(step) {
            eprintln!("--- step {step}: need_scheduling={} in_flight={} open_execs={:?}", sim.inc.server.need_scheduling(), sim.messages_in_flight(), sim.open_execs());
            for t in &core.tasks {
                eprintln!("task {:?} {:?} prio {:?} rq {}", conv::tid(t.id), t.state, t.priority, t.resource_rq_id);
            }
            for w in &core.workers {
                eprintln!("worker {} group {} res {:?} {:?} blocked {:?} stopping {}", w.id, w.group, w.resources, w.assignment, w.blocked_requests, w.stopping);
            }
            for q in &core.queues {
                eprintln!("queue rq {} ready {:?} prefill {:?}", q.resource_rq_id, q.ready, q.prefill);
            }
            eprintln!("redirects {:?}", core.redirects);
        }
        // ---- C02 / S3: at a moment of rest (nothing in flight, nothing executing, no scheduling
        // asked for) no ready task may be waiting while a connected worker that could run it is
        // completely idle. An idle worker fits every request its total resources satisfy, so a
        // request shape that is still blocked there, or a scheduler that was never woken up, is
        // exactly the "runnable work is not run" of the statement.
        if sim.messages_in_flight() == 0
            && sim.open_execs().is_empty()
            && sim.pending_flushes.is_empty()
            && sim.pending_prunes.is_empty()
            && !sim.inc.server.need_scheduling()
            && sim.clients.iter().all(|c| c.state != ClientState::Waiting)
            // a worker that has left its loop but whose connection is not closed yet: the
            // server still has to learn that it is gone (an event in flight)
            && sim.workers.values().all(|w| !w.stopped)
        {
            self.count("rest_points", 1);
            // S4: every RetractTasks message has been answered by now, so no task can still be
            // "being retracted" from a connected worker - it would wait there forever
            for t in &core.tasks {
                if let TaskStateSnapshot::Retracting { worker_id } = &t.state {
                    if core.workers.iter().any(|w| w.id == *worker_id) {
                        viol(
                            out,
                            step,
                            "C02",
                            "S4-retraction-unresolved-at-rest",
                            format!("at rest task {:?} is still being retracted from worker {worker_id} although no message is in flight", conv::tid(t.id)),
                        );
                        // C08: "tasks of other jobs are unaffected" - the task was asked back in one
                        // message together with a task of a job that was canceled meanwhile
                        let me = conv::tid(t.id);
                        if !self.canceled_tasks.contains(&me) {
                            if let Some(c) = self.retracted_with.get(&me).and_then(|ids| ids.iter().find(|o| o.0 != me.0 && self.canceled_tasks.contains(o))) {
                                viol(
                                    out,
                                    step,
                                    "C08",
                                    "K6-task-of-other-job-left-retracting-after-cancel",
                                    format!("at rest task {me:?} (its job was never canceled) is still being retracted from worker {worker_id}; it was asked back in one RetractTasks message with {c:?}, whose job was canceled before the answer arrived"),
                                );
                            }
                        }
                        break;
                    }
                }
            }
            // K4 (C08) / S5 (C02): a worker that holds nothing has promised to take back every
            // request it refused for lack of free resources ("soft" refusals, the ones it remembers);
            // if the last thing that ended there was a canceled execution, the resources the
            // canceled task released have not become usable for the tasks of other jobs
            for w in &core.workers {
                let wid = w.id.as_num();
                let Some(ws) = sim.worker_snapshot(wid) else { continue };
                if !ws.running.is_empty() || ws.prefilled.iter().any(|(_, ts)| !ts.is_empty()) {
                    continue;
                }
                self.count("rest_points_idle_worker_checked_for_refused_requests", 1);
                if !ws.blocked_requests.is_empty() && ws.blocked_requests_satisfiable_now.is_empty() {
                    self.count("rest_points_idle_worker_with_refused_request_it_cannot_serve", 1);
                }
                // only what the worker's own allocator could serve right now (`is_enabled`, the
                // predicate the worker uses itself when it takes a refusal back)
                if ws.blocked_requests_satisfiable_now.is_empty() {
                    continue;
                }
                match self.last_end_on.get(&wid) {
                    Some((EndHow::Canceled, t)) => viol(
                        out,
                        step,
                        "C08",
                        "K4-resources-of-canceled-task-not-offered-again",
                        format!(
                            "at rest worker {wid} runs nothing, the last execution that ended there was the canceled task {t:?}, and the worker still refuses the requests {:?} it turned down while that task held its resources although its allocator can serve them now: the server was never told they can be placed there again",
                            ws.blocked_requests_satisfiable_now
                        ),
                    ),
                    other => viol(
                        out,
                        step,
                        "C02",
                        "S5-idle-worker-keeps-refusing-request",
                        format!("at rest worker {wid} runs nothing but still refuses the requests {:?} although its allocator can serve them now (last execution that ended there: {other:?})", ws.blocked_requests_satisfiable_now),
                    ),
                }
            }
            let vnow = sim.vnow_s();
            let idle: Vec<&tako::verif::WorkerSnapshot> = core
                .workers
                .iter()
                .filter(|w| !w.stopping && matches!(&w.assignment, WorkerAssignmentSnapshot::Sn { assigned, prefilled, .. } if assigned.is_empty() && prefilled.is_empty()))
                .filter(|w| sim.workers.get(&w.id.as_num()).map(|h| !h.stopped).unwrap_or(false))
                .collect();
            if !idle.is_empty() {
                for t in &core.tasks {
                    if !matches!(t.state, TaskStateSnapshot::Waiting { unfinished_deps: 0 }) {
                        continue;
                    }
                    let rqv = core.requests.get(t.resource_rq_id.into());
                    if rqv.is_multi_node() {
                        // a multi-node task: enough idle workers with enough lifetime in one group
                        let rq = rqv.unwrap_first();
                        let n = rq.n_nodes() as usize;
                        let mut per_group: BTreeMap<&str, usize> = BTreeMap::new();
                        for w in &idle {
                            let h = sim.workers.get(&w.id.as_num());
                            let time_ok = match h.and_then(|h| h.spec.time_limit_s.map(|l| h.connected_at_s + l)) {
                                Some(end) => vnow + rq.min_time().as_secs() + 1 < end,
                                None => true,
                            };
                            if time_ok {
                                *per_group.entry(w.group.as_str()).or_insert(0) += 1;
                            }
                        }
                        if let Some((g, k)) = per_group.iter().find(|(_, k)| **k >= n) {
                            self.count("rest_points_with_ready_multinode_task_and_idle_group", 1);
                            viol(
                                out,
                                step,
                                "C02",
                                "S3-ready-multinode-task-not-run-at-rest",
                                format!("at rest task {:?} asking for {n} nodes is ready while group {g} has {k} idle workers with enough lifetime", conv::tid(t.id)),
                            );
                            break;
                        }
                        continue;
                    }
                    let fits = |w: &tako::verif::WorkerSnapshot| {
                        let h = sim.workers.get(&w.id.as_num());
                        rqv.requests().iter().any(|rq| {
                            let time_ok = match h.and_then(|h| h.spec.time_limit_s.map(|l| h.connected_at_s + l)) {
                                Some(end) => vnow + rq.min_time().as_secs() + 1 < end,
                                None => true,
                            };
                            time_ok
                                && rq.entries().iter().all(|e| {
                                    let have = w.resources.get(e.resource_id.as_usize()).copied().unwrap_or(0);
                                    match e.request.amount_or_none_if_all() {
                                        Some(a) => a.total_fractions() <= have,
                                        None => have > 0,
                                    }
                                })
                        })
                    };
                    if let Some(w) = idle.iter().find(|w| fits(w)) {
                        self.count("rest_points_with_ready_task_and_idle_capable_worker", 1);
                        // one known cause has its own signature: a ready multi-node task of higher
                        // priority that cannot run on the connected workers keeps every
                        // worker it could ever use clear of lower-priority tasks
                        let held_back_by_mn = core.tasks.iter().any(|m| {
                            matches!(m.state, TaskStateSnapshot::Waiting { unfinished_deps: 0 })
                                && m.priority > t.priority
                                && m.id != t.id
                                && core.requests.get(m.resource_rq_id.into()).is_multi_node()
                        });
                        viol(
                            out,
                            step,
                            "C02",
                            if held_back_by_mn { "S3-ready-task-held-back-by-waiting-multinode-task" } else { "S3-ready-task-not-run-at-rest" },
                            format!(
                                "at rest (nothing in flight, nothing executing, no scheduling requested) task {:?} is ready while worker {} is idle and provides everything a variant of its request asks for (blocked request shapes on that worker: {:?})",
                                conv::tid(t.id),
                                w.id,
                                w.blocked_requests
                            ),
                        );
                        break;
                    }
                }
            }
        }

        // ---- C05: placements
        self.check_placements(sim, &action, prev_core.as_ref(), &core, &srv_got_updates, step, out);

        self.prev_core = Some(core);
        self.prev_jobs = jobs;
    }

    /* ------------------------------ journal automaton (C01, C03-D3, C14) ------------------- */

    fn on_journal_event(&mut self, e: &Ev, step: u32, out: &mut Vec<Violation>) {
        let terminal = |m: &mut Monitors, t: Tid, kind: &'static str, out: &mut Vec<Violation>| {
            match m.auto.get(&t) {
                Some(Auto::Terminal(k)) => viol(
                    out,
                    step,
                    "C01",
                    "R1-second-terminal-outcome",
                    format!("task {t:?} already {k}, now reported {kind}"),
                ),
                _ => {}
            }
            m.auto.insert(t, Auto::Terminal(kind));
            m.count(&format!("terminal.{kind}"), 1);
            m.kinds_seen.insert(kind);
            if kind == "finished" {
                m.finished_tasks.insert(t);
            } else {
                m.bad_terminal.insert(t);
            }
        };
        match e {
            Ev::TaskStarted { t, instance, workers, .. } => {
                if let Some(Auto::Terminal(k)) = self.auto.get(t) {
                    viol(
                        out,
                        step,
                        "C01",
                        "R2-event-after-terminal",
                        format!("task {t:?} is {k} but a start was reported afterwards"),
                    );
                    if self.canceled_tasks.contains(t) {
                        viol(out, step, "C08", "K1-start-after-cancel", format!("task {t:?} reported started after its job was canceled"));
                    }
                } else {
                    // C06-X3 on reported starts
                    if let Some(prev) = self.last_started_instance.get(t) {
                        if *instance <= *prev {
                            viol(
                                out,
                                step,
                                "C06",
                                "X3-instance-not-increasing-reported",
                                format!("task {t:?} reported started with instance {instance} after instance {prev}"),
                            );
                        }
                    }
                    if let Some(prev) = self.max_journal_instance.get(t) {
                        if self.restarted && *instance <= *prev && !self.last_started_instance.contains_key(t) {
                            viol(
                                out,
                                step,
                                "C06",
                                "X3-instance-not-increasing-across-restart",
                                format!("task {t:?} started with instance {instance} after a restart; the journal already held instance {prev}"),
                            );
                        }
                    }
                    self.last_started_instance.insert(*t, *instance);
                    self.ever_started_ev.insert(*t);
                    self.auto.insert(
                        *t,
                        Auto::Started {
                            root: workers.first().copied().unwrap_or(0),
                            workers: workers.clone(),
                            instance: *instance,
                        },
                    );
                }
            }
            Ev::TaskFinished(t) => {
                match self.auto.get(t) {
                    Some(Auto::Started { .. }) => {}
                    Some(Auto::Terminal(_)) => {}
                    _ => viol(
                        out,
                        step,
                        "C01",
                        "R3-finish-without-start",
                        format!("task {t:?} reported finished while no start is in effect"),
                    ),
                }
                if self.canceled_tasks.contains(t) {
                    viol(out, step, "C08", "K1-finish-after-cancel", format!("task {t:?} reported finished after its job was canceled"));
                }
                terminal(self, *t, "finished", out);
            }
            Ev::TaskFailed { t, .. } => {
                if self.canceled_tasks.contains(t) {
                    viol(out, step, "C08", "K1-fail-after-cancel", format!("task {t:?} reported failed after its job was canceled"));
                }
                terminal(self, *t, "failed", out);
                *self.job_failed.entry(t.0).or_insert(0) += 1;
            }
            Ev::TasksCanceled(ts) => {
                // coverage of the rarest cancel window: a canceled task is being asked back from a
                // worker in one message with a task of another job that is still being asked back
                if let Some(pc) = &self.prev_core {
                    let retracting: BTreeSet<Tid> = pc.tasks.iter().filter(|x| matches!(x.state, TaskStateSnapshot::Retracting { .. })).map(|x| conv::tid(x.id)).collect();
                    if ts.iter().any(|t| retracting.contains(t) && self.retracted_with.get(t).map(|ids| ids.iter().any(|o| o.0 != t.0 && retracting.contains(o))).unwrap_or(false)) {
                        self.count("cancel.during_retraction_shared_with_other_job", 1);
                    }
                }
                for t in ts {
                    terminal(self, *t, "canceled", out);
                    self.canceled_tasks.insert(*t);
                    self.hq_running.remove(t);
                }
            }
            Ev::TasksAborted(ts) => {
                for t in ts {
                    terminal(self, *t, "aborted", out);
                    self.hq_running.remove(t);
                }
            }
            Ev::WorkerLost(w, _) => {
                // a start on a lost root worker is undone
                let undone: Vec<Tid> = self
                    .auto
                    .iter()
                    .filter(|(_, a)| matches!(a, Auto::Started { root, .. } if root == w))
                    .map(|(t, _)| *t)
                    .collect();
                for t in undone {
                    self.auto.insert(t, Auto::Accepted);
                }
            }
            Ev::JobCompleted(j) => {
                *self.job_completed_events.entry(*j).or_insert(0) += 1;
            }
            Ev::Submit { job, closed: true } | Ev::JobOpen(job) => {
                // C11: a new job id after a restart must not be mentioned by the kept journal
                if self.restarted {
                    self.count("restart.new_job_ids", 1);
                    if self.ids_in_kept_journal.0.contains(job) {
                        viol(out, step, "C11", "I1-job-id-reuse", format!("after a restart the new job got id {job}, which the journal already mentions"));
                    }
                }
            }
            Ev::WorkerConnected(w) => {
                if self.restarted {
                    self.count("restart.new_worker_ids", 1);
                    if self.ids_in_kept_journal.1.contains(w) {
                        viol(out, step, "C11", "I2-worker-id-reuse", format!("after a restart the new worker got id {w}, which the journal already mentions"));
                    }
                }
            }
            _ => {}
        }
    }

    /* ------------------------------ executions (C03-D1, C06-X2/X3, C08-K3) ------------------ */

    fn on_exec_start(&mut self, w: Wid, t: Tid, instance: u32, step: u32, out: &mut Vec<Violation>) {
        self.exec_started.insert(t);
        // C08-K3 / C14-M4
        if self.canceled_on.contains(&(w, t)) {
            let prop = if self.canceled_tasks.contains(&t) { "C08" } else { "C14" };
            viol(
                out,
                step,
                prop,
                "K3-start-after-cancel-on-worker",
                format!("worker {w} started {t:?} after it had processed CancelTasks for it"),
            );
        } else if self.retract_confirmed.contains(&(w, t)) {
            viol(
                out,
                step,
                "C06",
                "X2-start-after-retract-confirmed",
                format!("worker {w} started {t:?} after confirming its retraction"),
            );
        } else if self.credit.get(&(w, t)).copied() != Some(true) {
            viol(
                out,
                step,
                "C06",
                "X2-start-without-compute",
                format!("worker {w} started {t:?} without a pending ComputeTasks for it"),
            );
        }
        self.credit.insert((w, t), false);
        // C06-X3 on ground truth
        let last = self.exec_instances.get(&t).and_then(|v| v.last().copied());
        if let Some((prev, pw)) = last {
            if instance <= prev {
                viol(
                    out,
                    step,
                    "C06",
                    "X3-instance-not-increasing",
                    format!("task {t:?} executed with instance {instance} on worker {w} after instance {prev} on worker {pw}"),
                );
            }
            self.count("reexecution", 1);
        }
        self.exec_instances.entry(t).or_default().push((instance, w));
        if let Some(prev) = self.max_journal_instance.get(&t) {
            if self.restarted && instance <= *prev {
                viol(
                    out,
                    step,
                    "C06",
                    "X3-instance-not-increasing-across-restart",
                    format!("task {t:?} executed with instance {instance} after a restart; the journal already held instance {prev}"),
                );
            }
        }
        // C10-J4 / C03-D4: recorded-finished tasks are not run again
        if self.kept_finished.contains(&t) {
            viol(
                out,
                step,
                "C10",
                "J4-finished-task-rerun",
                format!("task {t:?} was recorded finished before the restart but executed again"),
            );
        }
        // C03-D1 on ground truth
        if let Some(info) = self.tasks.get(&t) {
            for d in &info.deps {
                if !self.finished_tasks.contains(d) {
                    if info.late_dependent {
                        viol(
                            out,
                            step,
                            "C03",
                            "D2-late-dependent-of-failed-task-runs",
                            format!("task {t:?} was submitted after its dependency {d:?} had failed/been canceled, and it was started"),
                        );
                    } else {
                        viol(
                            out,
                            step,
                            "C03",
                            "D1-started-before-dependency-finished",
                            format!("task {t:?} started on worker {w} but its dependency {d:?} has not finished"),
                        );
                    }
                }
            }
            if !info.deps.is_empty() {
                self.count("dep.checked_start", 1);
            }
        }
    }

    /* ------------------------------ C07 ---------------------------------------------------- */

    #[allow(clippy::too_many_arguments)]
    fn check_worker_loss(
        &mut self,
        w: Wid,
        running: &[Tid],
        reason: Reason,
        expected: &BTreeSet<Tid>,
        errors: &[(Tid, String, Vec<Tid>)],
        prev_core: Option<&CoreSnapshot>,
        core: &CoreSnapshot,
        jobs: &[JobLite],
        step: u32,
        out: &mut Vec<Violation>,
    ) {
        let Some(pc) = prev_core else { return };
        let listed: BTreeSet<Tid> = running.iter().copied().collect();
        // lenient: a multi-node task whose root is `w` but whose start was not reported yet
        let mn_unreported: BTreeSet<Tid> = pc
            .tasks
            .iter()
            .filter(|t| matches!(&t.state, TaskStateSnapshot::RunningMultiNode(ws) if ws.first().map(|x| x.as_num()) == Some(w)))
            .map(|t| conv::tid(t.id))
            .filter(|t| !expected.contains(t))
            .collect();
        for t in &listed {
            if !expected.contains(t) && !mn_unreported.contains(t) {
                viol(
                    out,
                    step,
                    "C07",
                    "L1-not-running-task-treated-as-running",
                    format!("loss of worker {w}: {t:?} handled as running there but it was not reported running on it"),
                );
            }
        }
        for t in expected {
            if !listed.contains(t) {
                viol(
                    out,
                    step,
                    "C07",
                    "L1-running-task-missed",
                    format!("loss of worker {w}: {t:?} was reported running there but is not handled"),
                );
            }
        }
        self.count("loss.total", 1);
        if !listed.is_empty() {
            self.count("loss.with_running", 1);
        }
        self.count(&format!("loss.reason.{reason:?}"), 1);
        let failed_now: BTreeMap<Tid, &String> = errors.iter().map(|(t, m, _)| (*t, m)).collect();
        for t in &listed {
            self.hq_running.remove(t);
            let snap = pc.tasks.iter().find(|x| conv::tid(x.id) == *t);
            let Some(snap) = snap else { continue };
            // the limit the client asked for; the server's own copy only for tasks whose submit
            // the monitors did not see (restored from a journal)
            let limit = match self.tasks.get(t).filter(|i| i.known_spec).and_then(|i| i.crash) {
                Some(CrashSpec::Never) => tako::gateway::CrashLimit::NeverRestart,
                Some(CrashSpec::Max(n)) => tako::gateway::CrashLimit::MaxCrashes(n),
                Some(CrashSpec::Unlimited) => tako::gateway::CrashLimit::Unlimited,
                None => snap.crash_limit,
            };
            let mut should_fail = false;
            match limit {
                tako::gateway::CrashLimit::NeverRestart => {
                    should_fail = true;
                }
                tako::gateway::CrashLimit::MaxCrashes(n) => {
                    if reason.is_failure() {
                        let r = self.ref_crash.entry(*t).or_insert(0);
                        *r += 1;
                        if *r >= n as u32 {
                            should_fail = true;
                        }
                    }
                }
                tako::gateway::CrashLimit::Unlimited => {
                    if reason.is_failure() {
                        *self.ref_crash.entry(*t).or_insert(0) += 1;
                    }
                }
            }
            self.count(
                &format!(
                    "loss.cell.{}.{}",
                    match limit {
                        tako::gateway::CrashLimit::NeverRestart => "never",
                        tako::gateway::CrashLimit::MaxCrashes(_) => "max",
                        tako::gateway::CrashLimit::Unlimited => "unlimited",
                    },
                    if reason.is_failure() { "failure" } else { "graceful" }
                ),
                1,
            );
            // a sibling failure may have aborted the task through max-fails in the same step
            let aborted_now = matches!(task_state(jobs, *t), Some(TaskStateLite::Aborted));
            match (should_fail, failed_now.get(t)) {
                (true, None) if !aborted_now => viol(
                    out,
                    step,
                    "C07",
                    "L3-task-should-have-failed",
                    format!("loss of worker {w} ({reason:?}): {t:?} with limit {limit:?} reached its limit but was not failed"),
                ),
                (true, Some(msg)) => {
                    if msg.trim().is_empty() {
                        viol(out, step, "C07", "L3-no-explanation", format!("{t:?} failed after worker loss without an explanatory error"));
                    }
                    self.count("loss.task_failed_by_limit", 1);
                }
                (false, Some(_)) => viol(
                    out,
                    step,
                    "C07",
                    "L3-task-failed-below-limit",
                    format!("loss of worker {w} ({reason:?}): {t:?} with limit {limit:?} failed although its limit is not reached (count {:?})", self.ref_crash.get(t)),
                ),
                (false, None) => {
                    // must be runnable again
                    if !aborted_now {
                        let now = core.tasks.iter().find(|x| conv::tid(x.id) == *t);
                        match now.map(|x| &x.state) {
                            Some(TaskStateSnapshot::Waiting { unfinished_deps: 0 }) => {
                                self.count("loss.task_requeued", 1);
                            }
                            other => viol(
                                out,
                                step,
                                "C07",
                                "L3-task-not-runnable-again",
                                format!("loss of worker {w}: {t:?} should be ready again but is {other:?}"),
                            ),
                        }
                    }
                }
                _ => {}
            }
        }
        // L4 for a task that was only *reserved* on the lost worker (being moved there by a
        // redirect): its fate is decided by the answer of the worker it is retracted from, so it is
        // watched from here on (see `check_requeue_watch`)
        for (t, to, _) in &pc.redirects {
            if to.as_num() == w && !listed.contains(&conv::tid(*t)) {
                self.count("loss.redirect_reserved_task", 1);
                self.requeue_watch.insert(*t);
            }
        }
        // L4: tasks only queued on the worker are rescheduled without penalty
        for t in &pc.tasks {
            let id = conv::tid(t.id);
            if listed.contains(&id) {
                continue;
            }
            let queued_here = match &t.state {
                TaskStateSnapshot::Assigned { worker_id, .. } | TaskStateSnapshot::Prefilled { worker_id } => worker_id.as_num() == w,
                TaskStateSnapshot::Running { worker_id, .. } => worker_id.as_num() == w,
                _ => false,
            };
            if !queued_here {
                continue;
            }
            self.count("loss.queued_task", 1);
            if failed_now.contains_key(&id) {
                viol(out, step, "C07", "L4-queued-task-failed", format!("loss of worker {w}: {id:?} was only queued there but was failed"));
            }
            let aborted_now = matches!(task_state(jobs, id), Some(TaskStateLite::Aborted));
            let now = core.tasks.iter().find(|x| conv::tid(x.id) == id);
            match now.map(|x| &x.state) {
                Some(TaskStateSnapshot::Waiting { unfinished_deps: 0 }) => {}
                None if aborted_now => {}
                other => viol(
                    out,
                    step,
                    "C07",
                    "L4-queued-task-not-rescheduled",
                    format!("loss of worker {w}: {id:?} was queued there and should be ready again but is {other:?}"),
                ),
            }
        }
    }

    /// C07 L4, second half: a task that was reserved on a lost worker must become schedulable
    /// again: as soon as it is back in the waiting state with nothing to wait for it has to be in a
    /// ready queue, and it must not be failed for the loss.
    fn check_requeue_watch(&mut self, core: &CoreSnapshot, step: u32, out: &mut Vec<Violation>) {
        if self.requeue_watch.is_empty() {
            return;
        }
        let watched: Vec<tako::TaskId> = self.requeue_watch.iter().copied().collect();
        for t in watched {
            let Some(snap) = core.tasks.iter().find(|x| x.id == t) else {
                // canceled or finished meanwhile
                self.requeue_watch.remove(&t);
                continue;
            };
            match &snap.state {
                TaskStateSnapshot::Retracting { .. } => {}
                TaskStateSnapshot::Waiting { unfinished_deps: 0 } => {
                    let in_ready = core.queues.iter().any(|q| q.ready.iter().any(|(_, ts)| ts.contains(&t)));
                    self.count("loss.redirect_reserved_task_back_in_waiting", 1);
                    if !in_ready {
                        viol(
                            out,
                            step,
                            "C07",
                            "L4-queued-task-not-rescheduled",
                            format!("{:?} was reserved on a lost worker by a redirect; it is waiting for nothing now but it is in no ready queue, so it is never scheduled again", conv::tid(t)),
                        );
                    }
                    self.requeue_watch.remove(&t);
                }
                _ => {
                    // placed again
                    self.count("loss.redirect_reserved_task_placed_again", 1);
                    self.requeue_watch.remove(&t);
                }
            }
        }
    }

    /* ------------------------------ C02-S1 -------------------------------------------------- */

    fn check_task_sets(&mut self, core: &CoreSnapshot, jobs: &[JobLite], step: u32, out: &mut Vec<Violation>) {
        let mut core_by_job: BTreeMap<Jid, BTreeSet<u32>> = BTreeMap::new();
        for t in &core.tasks {
            let id = conv::tid(t.id);
            core_by_job.entry(id.0).or_default().insert(id.1);
        }
        for j in jobs {
            let shown: BTreeSet<u32> = j
                .tasks
                .iter()
                .filter(|(_, s)| !s.is_terminal())
                .map(|(id, _)| *id)
                .collect();
            let known = core_by_job.remove(&j.id).unwrap_or_default();
            if shown != known {
                let phantom: Vec<&u32> = shown.difference(&known).collect();
                let orphan: Vec<&u32> = known.difference(&shown).collect();
                viol(
                    out,
                    step,
                    "C02",
                    "S1-task-sets-disagree",
                    format!(
                        "job {}: shown unfinished but unknown to the scheduler {phantom:?}; known to the scheduler but not shown unfinished {orphan:?}",
                        j.id
                    ),
                );
            }
        }
        for (j, ids) in core_by_job {
            if !ids.is_empty() {
                viol(
                    out,
                    step,
                    "C02",
                    "S1-orphan-tasks",
                    format!("scheduler holds tasks {ids:?} of job {j} which the job layer does not have"),
                );
            }
        }
    }

    /* ------------------------------ C01-R6, C13-B1 ------------------------------------------ */

    fn check_job_bookkeeping(&mut self, jobs: &[JobLite], step: u32, out: &mut Vec<Violation>) {
        for j in jobs {
            let mut c = CountersLite::default();
            for (id, s) in &j.tasks {
                match s {
                    TaskStateLite::Waiting => {}
                    TaskStateLite::Running { .. } => c.running += 1,
                    TaskStateLite::Finished => c.finished += 1,
                    TaskStateLite::Failed { .. } => c.failed += 1,
                    TaskStateLite::Canceled => c.canceled += 1,
                    TaskStateLite::Aborted => c.aborted += 1,
                }
                // C01-R6: user visible state equals the automaton of announced events
                let t = (j.id, *id);
                let expected = match self.auto.get(&t) {
                    None | Some(Auto::Accepted) => "waiting",
                    Some(Auto::Started { .. }) => "running",
                    Some(Auto::Terminal(k)) => k,
                };
                // after a restart the pre-restart history is not part of the automaton
                if !self.restarted && s.kind() != expected {
                    viol(
                        out,
                        step,
                        "C01",
                        "R6-shown-state-differs-from-announced",
                        format!("task {t:?} is shown as {} but the announced events imply {expected}", s.kind()),
                    );
                }
            }
            // job state: the first matching rule of docs/jobs/jobs.md ("Job state"), from the task states
            if !j.status.is_empty() {
                let any = |f: &dyn Fn(&TaskStateLite) -> bool| j.tasks.iter().any(|(_, s)| f(s));
                let expected = if any(&|s| matches!(s, TaskStateLite::Running { .. })) {
                    "Running"
                } else if any(&|s| matches!(s, TaskStateLite::Waiting)) {
                    "Waiting"
                } else if any(&|s| matches!(s, TaskStateLite::Failed { .. })) {
                    "Failed"
                } else if any(&|s| matches!(s, TaskStateLite::Aborted)) {
                    "Aborted"
                } else if any(&|s| matches!(s, TaskStateLite::Canceled)) {
                    "Canceled"
                } else if j.is_open {
                    "Opened"
                } else {
                    "Finished"
                };
                self.count(&format!("job.state.{expected}"), 1);
                if j.status != expected {
                    viol(out, step, "C13", "B1-job-state", format!("job {} is reported as {} but its task states give {expected} (documented rules)", j.id, j.status));
                }
            }
            if c != j.counters || j.n_tasks as usize != j.tasks.len() {
                viol(
                    out,
                    step,
                    "C13",
                    "B1-counters",
                    format!("job {}: counters {:?} n_tasks {} but task states give {:?} of {}", j.id, j.counters, j.n_tasks, c, j.tasks.len()),
                );
            }
        }
    }

    /* ------------------------------ C13-B2 -------------------------------------------------- */

    fn check_completion(&mut self, jobs: &[JobLite], step: u32, out: &mut Vec<Violation>) {
        for j in jobs {
            let all_terminal = j.tasks.iter().all(|(_, s)| s.is_terminal());
            let should = !j.is_open && all_terminal;
            let n = self.job_completed_events.get(&j.id).copied().unwrap_or(0);
            if n > 1 {
                viol(out, step, "C13", "B2-completed-twice", format!("job {} reported completed {n} times", j.id));
            }
            if self.restarted {
                continue;
            }
            if should && n == 0 {
                viol(
                    out,
                    step,
                    "C13",
                    "B2-completion-not-reported",
                    format!("job {} is closed and all its {} tasks are terminal but no completion was reported", j.id, j.tasks.len()),
                );
            }
            if !should && n > 0 {
                viol(
                    out,
                    step,
                    "C13",
                    "B2-completed-early",
                    format!("job {} reported completed while open={} and not all tasks terminal", j.id, j.is_open),
                );
            }
            if should {
                self.count("job.completed_checked", 1);
            }
        }
    }

    /* ------------------------------ C13-B3 -------------------------------------------------- */

    #[allow(clippy::too_many_arguments)]
    fn check_submit(
        &mut self,
        job: Option<Jid>,
        max_fails: Option<u32>,
        spec: &SubmitSpec,
        journal: &[Ev],
        prev_jobs: &[JobLite],
        jobs: &[JobLite],
        prev_core: Option<&CoreSnapshot>,
        core: &CoreSnapshot,
        step: u32,
        out: &mut Vec<Violation>,
    ) {
        let accepted_job: Option<Jid> = journal.iter().find_map(|e| match e {
            Ev::Submit { job, .. } => Some(*job),
            _ => None,
        });
        let ids_of = |jobs: &[JobLite], j: Jid| -> BTreeSet<u32> {
            job_of(jobs, j).map(|x| x.tasks.iter().map(|t| t.0).collect()).unwrap_or_default()
        };
        // is the submit valid by the documented rules?
        let target = job.and_then(|j| job_of(prev_jobs, j));
        let existing: BTreeSet<u32> = target.map(|t| t.tasks.iter().map(|x| x.0).collect()).unwrap_or_default();
        let mut invalid: Option<&'static str> = None;
        if let Some(j) = job {
            match job_of(prev_jobs, j) {
                None => invalid = Some("unknown job"),
                Some(t) if !t.is_open => invalid = Some("closed job"),
                _ => {}
            }
        }
        let expected_new: Option<BTreeSet<u32>> = match spec {
            SubmitSpec::Array { ids, entries, .. } => match ids {
                Some(v) => {
                    let s: BTreeSet<u32> = v.iter().copied().collect();
                    if s.iter().any(|i| existing.contains(i)) {
                        invalid = invalid.or(Some("duplicate id"));
                    }
                    Some(s)
                }
                None => {
                    let start = existing.iter().max().map(|m| m + 1).unwrap_or(0);
                    let n = entries.unwrap_or(1);
                    Some((start..start + n).collect())
                }
            },
            SubmitSpec::Graph { tasks, .. } => {
                let mut s = BTreeSet::new();
                let mut seen = BTreeSet::new();
                for t in tasks {
                    if existing.contains(&t.id) {
                        invalid = invalid.or(Some("duplicate id"));
                    }
                    if !s.insert(t.id) {
                        invalid = invalid.or(Some("non unique id"));
                    }
                    seen.insert(t.id);
                    for d in &t.deps {
                        if *d == t.id || (!seen.contains(d) && !existing.contains(d)) {
                            invalid = invalid.or(Some("invalid dependency"));
                        }
                    }
                }
                Some(s)
            }
        };
        match (invalid, accepted_job) {
            (Some(why), Some(j)) => viol(
                out,
                step,
                "C13",
                "B3-invalid-submit-accepted",
                format!("submit ({why}) was accepted into job {j}"),
            ),
            (Some(_), None) => {
                self.count("submit.invalid_rejected", 1);
                // rejected without any effect
                if !journal.is_empty() {
                    viol(out, step, "C13", "B3-rejected-submit-has-effect", format!("a rejected submit emitted events {journal:?}"));
                }
                if prev_jobs != jobs {
                    viol(out, step, "C13", "B3-rejected-submit-has-effect", "a rejected submit changed the job state".to_string());
                }
                if let Some(pc) = prev_core {
                    if pc.tasks.len() != core.tasks.len() {
                        viol(out, step, "C13", "B3-rejected-submit-has-effect", "a rejected submit changed the scheduler's task set".to_string());
                    }
                }
            }
            (None, None) => viol(
                out,
                step,
                "C13",
                "B3-valid-submit-rejected",
                format!("a valid submit (job {job:?}) was not accepted"),
            ),
            (None, Some(j)) => {
                self.count("submit.accepted", 1);
                if job.is_some() {
                    self.count("submit.into_open_job", 1);
                }
                if let Some(want) = job {
                    if want != j {
                        viol(out, step, "C13", "B3-wrong-job", format!("submit into job {want} landed in job {j}"));
                    }
                } else {
                    self.job_max_fails.insert(j, max_fails);
                }
                let before = ids_of(prev_jobs, j);
                let after = ids_of(jobs, j);
                let new: BTreeSet<u32> = after.difference(&before).copied().collect();
                let expected = expected_new.unwrap();
                if !before.is_subset(&after) || new != expected {
                    viol(
                        out,
                        step,
                        "C13",
                        "B3-task-ids",
                        format!("submit into job {j}: expected new task ids {expected:?}, job gained {new:?} (had {} tasks)", before.len()),
                    );
                }
                // the same id set reaches the scheduler
                let core_new: BTreeSet<u32> = core
                    .tasks
                    .iter()
                    .map(|t| conv::tid(t.id))
                    .filter(|t| t.0 == j)
                    .filter(|t| {
                        prev_core
                            .map(|pc| !pc.tasks.iter().any(|x| conv::tid(x.id) == *t))
                            .unwrap_or(true)
                    })
                    .map(|t| t.1)
                    .collect();
                if core_new != expected {
                    viol(
                        out,
                        step,
                        "C02",
                        "S1-submit-task-sets-disagree",
                        format!("submit into job {j}: job gained {new:?} but the scheduler gained {core_new:?}"),
                    );
                }
                // register specs
                match spec {
                    SubmitSpec::Array { req, attrs, .. } => {
                        for id in &new {
                            self.tasks.insert(
                                (j, *id),
                                TaskInfo {
                                    deps: vec![],
                                    n_nodes: req.variants[0].n_nodes,
                                    known_spec: true,
                                    time_limit_s: attrs.time_limit_s,
                                    crash: Some(attrs.crash),
                                    req: Some(req.clone()),
                                    late_dependent: false,
                                },
                            );
                        }
                    }
                    SubmitSpec::Graph { reqs, tasks } => {
                        for t in tasks {
                            self.tasks.insert(
                                (j, t.id),
                                TaskInfo {
                                    deps: t.deps.iter().map(|d| (j, *d)).collect(),
                                    n_nodes: reqs[t.req].variants[0].n_nodes,
                                    known_spec: true,
                                    time_limit_s: t.attrs.time_limit_s,
                                    crash: Some(t.attrs.crash),
                                    req: reqs.get(t.req).cloned(),
                                    late_dependent: false,
                                },
                            );
                            if self.has_bad_ancestor((j, t.id)) {
                                self.tasks.get_mut(&(j, t.id)).unwrap().late_dependent = true;
                                self.count("dep.late_dependents", 1);
                            }
                            if !t.deps.is_empty() {
                                self.count("dep.tasks_with_deps", 1);
                            }
                        }
                    }
                }
            }
        }
    }

    /* ------------------------------ C08 ------------------------------------------------------ */

    #[allow(clippy::too_many_arguments)]
    fn check_cancel(
        &mut self,
        job: Jid,
        journal: &[Ev],
        prev_jobs: &[JobLite],
        jobs: &[JobLite],
        prev_core: Option<&CoreSnapshot>,
        core: &CoreSnapshot,
        step: u32,
        out: &mut Vec<Violation>,
    ) {
        let Some(pj) = job_of(prev_jobs, job) else {
            // unknown job: nothing may happen
            if !journal.is_empty() {
                viol(out, step, "C08", "K5-cancel-of-unknown-job-has-effect", format!("events {journal:?}"));
            }
            return;
        };
        let nonterminal: BTreeSet<Tid> = pj
            .tasks
            .iter()
            .filter(|(_, s)| !s.is_terminal())
            .map(|(id, _)| (job, *id))
            .collect();
        let recorded: Vec<Tid> = journal
            .iter()
            .filter_map(|e| match e {
                Ev::TasksCanceled(ts) => Some(ts.clone()),
                _ => None,
            })
            .flatten()
            .collect();
        let recorded_set: BTreeSet<Tid> = recorded.iter().copied().collect();
        if nonterminal.is_empty() {
            // K5: repeating the cancel changes nothing
            self.count("cancel.noop", 1);
            if !journal.is_empty() {
                viol(out, step, "C08", "K5-repeated-cancel-has-effect", format!("cancel of job {job} without unfinished tasks emitted {journal:?}"));
            }
            if job_of(jobs, job) != Some(pj) {
                viol(out, step, "C08", "K5-repeated-cancel-has-effect", format!("cancel of job {job} without unfinished tasks changed the job"));
            }
            if let Some(pc) = prev_core {
                if format!("{:?}", pc.tasks) != format!("{:?}", core.tasks) || format!("{:?}", pc.workers) != format!("{:?}", core.workers) {
                    viol(out, step, "C08", "K5-repeated-cancel-has-effect", format!("cancel of job {job} without unfinished tasks changed the scheduler state"));
                }
            }
            return;
        }
        self.count("cancel.effective", 1);
        self.count("cancel.tasks", nonterminal.len() as u64);
        if recorded.len() != recorded_set.len() || recorded_set != nonterminal {
            viol(
                out,
                step,
                "C08",
                "K1-canceled-set",
                format!("cancel of job {job}: unfinished tasks were {nonterminal:?} but reported canceled {recorded:?}"),
            );
        }
        // other jobs untouched in this step
        for e in journal {
            let other = match e {
                Ev::JobCancel(j) | Ev::JobCompleted(j) => *j != job,
                Ev::TasksCanceled(ts) => ts.iter().any(|t| t.0 != job),
                Ev::TasksAborted(_) | Ev::TaskFailed { .. } | Ev::TaskFinished(_) | Ev::TaskStarted { .. } => true,
                _ => false,
            };
            if other {
                viol(out, step, "C08", "K1-other-job-affected", format!("cancel of job {job} emitted {e:?}"));
            }
        }
        for j in prev_jobs {
            if j.id != job && job_of(jobs, j.id) != Some(j) {
                viol(out, step, "C08", "K1-other-job-affected", format!("cancel of job {job} changed job {}", j.id));
            }
        }
        // terminal tasks keep their outcome, the others are canceled
        if let Some(nj) = job_of(jobs, job) {
            for (id, s) in &pj.tasks {
                let now = nj.tasks.iter().find(|x| x.0 == *id).map(|x| &x.1);
                if s.is_terminal() {
                    if now != Some(s) {
                        viol(out, step, "C08", "K1-terminal-task-changed", format!("task {:?} was {s:?} and is {now:?} after the cancel", (job, id)));
                    }
                } else if now != Some(&TaskStateLite::Canceled) {
                    viol(out, step, "C08", "K1-task-not-canceled", format!("task {:?} is {now:?} after the cancel", (job, id)));
                }
            }
        }
        // coverage: lifecycle state of each canceled task
        if let Some(pc) = prev_core {
            for t in &nonterminal {
                if let Some(ts) = pc.tasks.iter().find(|x| conv::tid(x.id) == *t) {
                    let mut name = state_name(&ts.state).to_string();
                    if name == "retracting" && pc.redirects.iter().any(|r| conv::tid(r.0) == *t) {
                        name = "retracting_redirected".into();
                    }
                    if let TaskStateSnapshot::Waiting { unfinished_deps } = ts.state {
                        name = if unfinished_deps > 0 { "waiting_deps".into() } else { "ready".into() };
                    }
                    self.count(&format!("cancel.state.{name}"), 1);
                }
            }
        }
        // K4: nothing of the canceled tasks is left in the scheduler and reservations are released
        for t in &nonterminal {
            let tid = conv::task_id(*t);
            let mut left: Vec<String> = Vec::new();
            if core.tasks.iter().any(|x| x.id == tid) {
                left.push("task map".into());
            }
            for w in &core.workers {
                if let WorkerAssignmentSnapshot::Sn { assigned, prefilled, .. } = &w.assignment {
                    if assigned.contains(&tid) {
                        left.push(format!("assigned set of worker {}", w.id));
                    }
                    if prefilled.contains(&tid) {
                        left.push(format!("prefilled set of worker {}", w.id));
                    }
                }
                if let WorkerAssignmentSnapshot::Mn { task_id, .. } = &w.assignment {
                    if *task_id == tid {
                        left.push(format!("multi-node reservation of worker {}", w.id));
                    }
                }
            }
            for q in &core.queues {
                if q.ready.iter().any(|(_, ts)| ts.contains(&tid)) {
                    left.push(format!("ready queue {}", q.resource_rq_id));
                }
                if q.prefill.as_ref().map(|(_, ts)| ts.contains(&tid)).unwrap_or(false) {
                    left.push(format!("prefill set {}", q.resource_rq_id));
                }
            }
            if core.redirects.iter().any(|r| r.0 == tid) {
                left.push("redirects".into());
            }
            if !left.is_empty() {
                viol(out, step, "C08", "K4-canceled-task-left-behind", format!("{t:?} still in {left:?}"));
            }
        }
        if let Some(pc) = prev_core {
            let before = accounting_errors(pc);
            let after = accounting_errors(core);
            if before.is_empty() && !after.is_empty() {
                viol(out, step, "C08", "K4-reservation-not-released", format!("after cancel of job {job}: {after:?}"));
            }
        }
    }

    /* ------------------------------ C14 ------------------------------------------------------ */

    #[allow(clippy::too_many_arguments)]
    fn check_max_fails(
        &mut self,
        journal: &[Ev],
        prev_jobs: &[JobLite],
        jobs: &[JobLite],
        prev_core: Option<&CoreSnapshot>,
        srv_cancel_sent: &BTreeSet<Tid>,
        rejected_now: &BTreeSet<Tid>,
        step: u32,
        out: &mut Vec<Violation>,
    ) {
        // failures of this step per job
        let mut failed_now: BTreeMap<Jid, u32> = BTreeMap::new();
        for e in journal {
            if let Ev::TaskFailed { t, .. } = e {
                *failed_now.entry(t.0).or_insert(0) += 1;
            }
        }
        // M1: aborts need a reason
        for e in journal {
            if let Ev::TasksAborted(ts) = e {
                for t in ts {
                    let limit = match self.job_max_fails.get(&t.0) {
                        Some(l) if !self.restarted => *l,
                        _ => job_of(jobs, t.0).and_then(|j| j.max_fails).or_else(|| job_of(prev_jobs, t.0).and_then(|j| j.max_fails)),
                    };
                    let n_failed = self.job_failed.get(&t.0).copied().unwrap_or(0);
                    let over = limit.map(|k| n_failed > k).unwrap_or(false);
                    let dep_reason = self.has_bad_ancestor(*t);
                    if !over && !dep_reason {
                        viol(
                            out,
                            step,
                            "C14",
                            "M1-abort-within-limit",
                            format!("task {t:?} aborted although job {} has {n_failed} failures (limit {limit:?}) and no failed/canceled dependency", t.0),
                        );
                        viol(
                            out,
                            step,
                            "C03",
                            "D3-unrelated-task-aborted",
                            format!("task {t:?} aborted without a failed or canceled dependency (job failures {n_failed}, limit {limit:?})"),
                        );
                    }
                    if dep_reason {
                        self.count("abort.by_dependency", 1);
                    } else if over {
                        self.count("abort.by_limit", 1);
                    }
                }
            }
        }
        // M2: when a failure brings the count over the limit, nothing of the job stays unfinished
        for (j, _) in failed_now {
            let Some(nj) = job_of(jobs, j) else { continue };
            // (the limit the client asked for; the server's copy only if the monitors did not see the request)
            let asked = match self.job_max_fails.get(&j) {
                Some(l) if !self.restarted => *l,
                _ => nj.max_fails,
            };
            let Some(k) = asked else { continue };
            let n_failed = self.job_failed.get(&j).copied().unwrap_or(0);
            if n_failed > k {
                self.count("maxfails.crossings", 1);
                self.aborted_by_limit_jobs.insert(j);
                let left: Vec<u32> = nj.tasks.iter().filter(|(_, s)| !s.is_terminal()).map(|x| x.0).collect();
                if !left.is_empty() {
                    viol(
                        out,
                        step,
                        "C14",
                        "M2-tasks-survive-limit",
                        format!("job {j} has {n_failed} failures (limit {k}) but tasks {left:?} are still unfinished"),
                    );
                }
                // M3: workers holding them are told to cancel
                if let (Some(pc), Some(pj)) = (prev_core, job_of(prev_jobs, j)) {
                    for (id, s) in &pj.tasks {
                        if s.is_terminal() {
                            continue;
                        }
                        let t = (j, *id);
                        let held = pc.tasks.iter().find(|x| conv::tid(x.id) == t).map(|x| {
                            matches!(
                                x.state,
                                TaskStateSnapshot::Assigned { .. }
                                    | TaskStateSnapshot::Running { .. }
                                    | TaskStateSnapshot::Prefilled { .. }
                                    | TaskStateSnapshot::Retracting { .. }
                                    | TaskStateSnapshot::RunningMultiNode(_)
                            )
                        });
                        let became_aborted = matches!(task_state(jobs, t), Some(TaskStateLite::Aborted));
                        if held == Some(true) && became_aborted {
                            self.count("maxfails.held_task_aborted", 1);
                            // the worker may have been removed in this very step (loss): then no
                            // message can be sent
                            let worker_alive = pc.tasks.iter().find(|x| conv::tid(x.id) == t).map(|x| match &x.state {
                                TaskStateSnapshot::Assigned { worker_id, .. }
                                | TaskStateSnapshot::Running { worker_id, .. }
                                | TaskStateSnapshot::Prefilled { worker_id }
                                | TaskStateSnapshot::Retracting { worker_id } => Some(*worker_id),
                                TaskStateSnapshot::RunningMultiNode(ws) => ws.first().copied(),
                                _ => None,
                            });
                            // only a worker lost in this very step cannot be told
                            let holder_lost = match worker_alive.flatten() {
                                Some(h) => journal.iter().any(|e| matches!(e, Ev::WorkerLost(w, _) if *w == h.as_num())),
                                None => true,
                            };
                            if journal.iter().any(|e| matches!(e, Ev::WorkerLost(..))) {
                                self.count("maxfails.crossing_by_worker_loss.held_task_checked", 1);
                            }
                            if rejected_now.contains(&t) {
                                self.count("maxfails.held_task_given_back_in_the_same_message", 1);
                            }
                            if !srv_cancel_sent.contains(&t) && !holder_lost && !rejected_now.contains(&t) {
                                viol(
                                    out,
                                    step,
                                    "C14",
                                    "M3-worker-not-told",
                                    format!("task {t:?} aborted by max-fails while placed on a worker, but no CancelTasks was sent for it"),
                                );
                            }
                        }
                    }
                }
            }
        }
    }

    fn has_late_ancestor(&self, t: Tid) -> bool {
        let mut stack = vec![t];
        let mut seen = BTreeSet::new();
        while let Some(x) = stack.pop() {
            if let Some(info) = self.tasks.get(&x) {
                if info.late_dependent {
                    return true;
                }
                for d in &info.deps {
                    if seen.insert(*d) {
                        stack.push(*d);
                    }
                }
            }
        }
        false
    }

    fn has_bad_ancestor(&self, t: Tid) -> bool {
        let mut stack = vec![t];
        let mut seen = BTreeSet::new();
        while let Some(x) = stack.pop() {
            if let Some(info) = self.tasks.get(&x) {
                for d in &info.deps {
                    if self.bad_terminal.contains(d) {
                        return true;
                    }
                    if seen.insert(*d) {
                        stack.push(*d);
                    }
                }
            }
        }
        false
    }

    /* ------------------------------ C05 ------------------------------------------------------ */

    fn check_placements(
        &mut self,
        sim: &Sim,
        action: &Option<Action>,
        prev_core: Option<&CoreSnapshot>,
        core: &CoreSnapshot,
        updates: &[UpdateLite],
        step: u32,
        out: &mut Vec<Violation>,
    ) {
        // P1 + P4 (consistency and resource sums)
        let prefilled_start_from: Option<Wid> = match (action, prev_core) {
            (Some(Action::ToServer { w }), Some(pc)) => {
                // did this message make the server learn that the worker started a task on its
                // own (from its prefilled backlog)?
                let started_from_backlog = core.tasks.iter().any(|t| {
                    matches!(&t.state, TaskStateSnapshot::Running { worker_id, .. } if worker_id.as_num() == *w)
                        && pc.tasks.iter().any(|x| {
                            x.id == t.id
                                && matches!(x.state, TaskStateSnapshot::Prefilled { .. } | TaskStateSnapshot::Retracting { .. })
                        })
                });
                started_from_backlog.then_some(*w)
            }
            _ => None,
        };
        let before_ok = prev_core.map(|pc| !accounting_errors(pc).iter().any(|e| e.starts_with("overbooked"))).unwrap_or(true);
        let errors_now = accounting_errors(core);
        // a drifted worker is healed as soon as the server's own accounting is exact again
        let still_off: BTreeSet<Wid> = errors_now
            .iter()
            .filter_map(|e| e.split("worker ").nth(1).and_then(|x| x.split(' ').next()).and_then(|x| x.parse().ok()))
            .collect();
        self.drifted_workers.retain(|w| still_off.contains(w) && core.workers.iter().any(|x| x.id.as_num() == *w));
        // the same defect without a visible overbooking at this step boundary: the message that
        // reported the backlog start also carried rejects/finishes; the worker was over-committed
        // only in between (where the server's subtraction saturated), and what is left is a
        // server that counts more free than there is. To keep this apart from any other
        // accounting defect the oracle replays the message on its own books: the known mechanism
        // requires that the placed tasks exceed the worker at some point inside the message
        if let (Some(w), Some(pc)) = (prefilled_start_from, prev_core) {
            let off_now = errors_now.iter().any(|e| e.starts_with("accounting") && e.contains(&format!("worker {w} ")));
            if off_now && transient_overcommit(pc, core, w, updates) && self.drifted_workers.insert(w) {
                self.count("placement.drift_after_backlog_start", 1);
            }
        }
        for e in errors_now {
            if e.starts_with("overbooked") {
                let ew: Option<Wid> = e.split("worker ").nth(1).and_then(|x| x.split(' ').next()).and_then(|x| x.parse().ok());
                match prefilled_start_from {
                    Some(w) if e.contains(&format!("worker {w} ")) => {
                        self.drifted_workers.insert(w);
                        viol(out, step, "C05", "P1-overbooked-by-backlog-start-after-release", e)
                    }
                    _ if ew.map(|w| self.drifted_workers.contains(&w)).unwrap_or(false) => {
                        viol(out, step, "C05", "P1-overbooked-while-accounting-drifted-after-backlog-start", e)
                    }
                    _ if !before_ok => {
                        // the overbooking already exists; it was reported when it arose
                    }
                    _ => viol(out, step, "C05", "P1-overbooked", e),
                }
            } else if e.starts_with("incapable") {
                viol(out, step, "C05", "P1-placed-where-it-cannot-run", e);
            }
        }
        for e in consistency_errors(core) {
            viol(out, step, "C05", "P4-inconsistent-structures", e);
        }
        // C04 / A6: the allocations of the executions that are open at the same time on one
        // worker (ground truth of the fake launcher: the allocation the worker handed to the
        // launcher) are exclusive per index and within the size of sum resources; A3: every
        // grant has the amount of the variant it was started with
        {
            let sh = sim.shared.borrow();
            let inc = sh.incarnation;
            let mut per_index: BTreeMap<(Wid, u32, u32), (u64, Vec<Tid>)> = BTreeMap::new();
            let mut per_res: BTreeMap<(Wid, u32), u64> = BTreeMap::new();
            let mut n_open = 0u64;
            for e in sh.execs.iter().filter(|e| e.open && e.incarnation == inc) {
                if !sim.workers.contains_key(&e.w) {
                    continue;
                }
                n_open += 1;
                for (rid, amount, indices) in &e.alloc.resources {
                    *per_res.entry((e.w, *rid)).or_insert(0) += *amount;
                    let mut total = 0u64;
                    for (ix, _g, f) in indices {
                        let a = if *f == 0 { 10_000 } else { *f as u64 };
                        total += a;
                        let ent = per_index.entry((e.w, *rid, *ix)).or_insert((0, vec![]));
                        ent.0 += a;
                        ent.1.push(e.t);
                    }
                    if !indices.is_empty() && total != *amount {
                        viol(out, step, "C04", "A3-indices-do-not-sum-to-amount", format!("execution of {:?} on worker {}: resource {rid}: indices {indices:?} give {total}, amount {amount}", e.t, e.w));
                    }
                }
            }
            self.count("ledger.open_executions_checked", n_open);
            for ((w, rid, ix), (held, tasks)) in &per_index {
                if tasks.len() > 1 {
                    self.count("ledger.index_shared_by_fractions", 1);
                }
                if *held > 10_000 {
                    viol(out, step, "C04", "A6-index-held-beyond-capacity", format!("worker {w} resource {rid} index {ix}: concurrently open executions of {tasks:?} hold {held}/10000"));
                }
            }
            for ((w, rid), held) in &per_res {
                let size = sim.workers.get(w).and_then(|h| {
                    let name = core.resource_names.get(*rid as usize)?;
                    h.spec.resources.iter().find(|r| &r.name == name).map(|r| r.kind.size())
                });
                if let Some(size) = size {
                    if *held > size {
                        viol(out, step, "C04", "A6-resource-held-beyond-size", format!("worker {w} resource {rid}: concurrently open executions hold {held} of {size}"));
                    }
                    if *held == size && size > 0 {
                        self.count("ledger.resource_fully_held", 1);
                    }
                }
            }
        }
        // P2 time: tasks placed by this scheduling round
        if let (Some(Action::Sched), Some(pc)) = (action, prev_core) {
            let vnow = sim.vnow_s();
            for t in &core.tasks {
                let newly = match &t.state {
                    TaskStateSnapshot::Assigned { worker_id, rv_id } => {
                        let was = pc.tasks.iter().find(|x| x.id == t.id).map(|x| &x.state);
                        if was != Some(&t.state) {
                            Some((vec![*worker_id], *rv_id))
                        } else {
                            None
                        }
                    }
                    TaskStateSnapshot::RunningMultiNode(ws) => {
                        let was = pc.tasks.iter().find(|x| x.id == t.id).map(|x| &x.state);
                        if !matches!(was, Some(TaskStateSnapshot::RunningMultiNode(_))) {
                            Some((ws.clone(), 0.into()))
                        } else {
                            None
                        }
                    }
                    _ => None,
                };
                let Some((ws, rv)) = newly else { continue };
                self.count("placement.checked", 1);
                let rq = core.requests.get(t.resource_rq_id.into()).get(rv);
                let min_time = rq.min_time().as_secs();
                if min_time > 0 {
                    self.count("placement.with_time_request", 1);
                }
                for w in &ws {
                    if let Some(h) = sim.workers.get(&w.as_num()) {
                        if let Some(limit) = h.spec.time_limit_s {
                            self.count("placement.on_limited_worker", 1);
                            if vnow + min_time > h.connected_at_s + limit {
                                viol(
                                    out,
                                    step,
                                    "C05",
                                    "P2-not-enough-lifetime",
                                    format!(
                                        "task {:?} needs {min_time}s but worker {w} placed at {vnow}s ends at {}s",
                                        conv::tid(t.id),
                                        h.connected_at_s + limit
                                    ),
                                );
                            }
                        }
                    }
                }
                if rq.is_multi_node() {
                    self.count("placement.multinode", 1);
                    let n = rq.n_nodes() as usize;
                    let distinct: BTreeSet<_> = ws.iter().collect();
                    let groups: BTreeSet<&String> = ws
                        .iter()
                        .filter_map(|w| core.workers.iter().find(|x| x.id == *w).map(|x| &x.group))
                        .collect();
                    if ws.len() != n || distinct.len() != n || groups.len() != 1 {
                        viol(
                            out,
                            step,
                            "C05",
                            "P3-multinode-placement",
                            format!("task {:?} asks for {n} nodes, got workers {ws:?} of groups {groups:?}", conv::tid(t.id)),
                        );
                    }
                    self.mn_sets.insert(conv::tid(t.id), ws.iter().map(|w| w.as_num()).collect());
                }
            }
        }
        // P3: while held, every member is reserved for that task only; the set only shrinks
        for t in &core.tasks {
            if let TaskStateSnapshot::RunningMultiNode(ws) = &t.state {
                for w in ws {
                    match core.workers.iter().find(|x| x.id == *w).map(|x| &x.assignment) {
                        Some(WorkerAssignmentSnapshot::Mn { task_id, .. }) if *task_id == t.id => {}
                        other => viol(
                            out,
                            step,
                            "C05",
                            "P3-multinode-member-not-reserved",
                            format!("task {:?} holds worker {w} whose assignment is {other:?}", conv::tid(t.id)),
                        ),
                    }
                }
                if let Some(orig) = self.mn_sets.get(&conv::tid(t.id)) {
                    if ws.iter().any(|w| !orig.contains(&w.as_num())) {
                        viol(out, step, "C05", "P3-multinode-set-grew", format!("task {:?}: workers {ws:?} not within {orig:?}", conv::tid(t.id)));
                    }
                }
            }
        }
    }

    /* ------------------------------ restart -------------------------------------------------- */

    fn on_restart(&mut self, sim: &Sim, step: u32, out: &mut Vec<Violation>) {
        self.restarted = true;
        self.count("restart", 1);
        // what the kept journal prefix says
        let kept: Vec<Ev> = sim.journal.iter().map(|e| conv::ev(&e.payload)).collect();
        self.kept_finished.clear();
        self.max_journal_instance.clear();
        self.ids_in_kept_journal = (BTreeSet::new(), BTreeSet::new());
        for e in &kept {
            match e {
                Ev::Submit { job, .. } | Ev::JobOpen(job) | Ev::JobCompleted(job) | Ev::JobClose(job) | Ev::JobCancel(job) => {
                    self.ids_in_kept_journal.0.insert(*job);
                }
                Ev::WorkerConnected(w) | Ev::WorkerLost(w, _) => {
                    self.ids_in_kept_journal.1.insert(*w);
                }
                _ => {}
            }
        }
        let mut running_on: BTreeMap<Tid, Vec<Wid>> = BTreeMap::new();
        let mut crash: BTreeMap<Tid, (u32, u32)> = BTreeMap::new(); // (strict, lenient) counts
        for e in &kept {
            match e {
                Ev::TaskStarted { t, instance, workers, .. } => {
                    let m = self.max_journal_instance.entry(*t).or_insert(0);
                    *m = (*m).max(*instance);
                    running_on.insert(*t, workers.clone());
                }
                Ev::TaskFinished(t) => {
                    self.kept_finished.insert(*t);
                    running_on.remove(t);
                }
                Ev::TaskFailed { t, .. } => {
                    running_on.remove(t);
                }
                Ev::TasksCanceled(ts) | Ev::TasksAborted(ts) => {
                    for t in ts {
                        running_on.remove(t);
                    }
                }
                Ev::WorkerLost(w, reason) => {
                    let hit: Vec<Tid> = running_on
                        .iter()
                        .filter(|(_, ws)| ws.contains(w))
                        .map(|(t, _)| *t)
                        .collect();
                    for t in hit {
                        let root = running_on[&t].first() == Some(w);
                        if reason.is_failure() {
                            let c = crash.entry(t).or_insert((0, 0));
                            if root {
                                c.0 += 1;
                            }
                            c.1 += 1;
                        }
                        if root {
                            running_on.remove(&t);
                        }
                    }
                }
                _ => {}
            }
        }
        // C07-L5: crash counters handed to the new core
        for rt in &sim.restored_submits {
            let (strict, lenient) = crash.get(&rt.t).copied().unwrap_or((0, 0));
            self.count("restart.restored_tasks", 1);
            if strict > 0 {
                self.count("restart.restored_tasks_with_crashes", 1);
            }
            if rt.crash_counter != strict && rt.crash_counter != lenient {
                viol(
                    out,
                    step,
                    "C07",
                    "L5-crash-count-lost-in-restart",
                    format!("task {:?}: journal holds {strict} failure-type losses while running, restored crash counter is {}", rt.t, rt.crash_counter),
                );
            }
            self.ref_crash.insert(rt.t, rt.crash_counter);
            if let Some(m) = self.max_journal_instance.get(&rt.t) {
                if rt.instance <= *m {
                    viol(
                        out,
                        step,
                        "C06",
                        "X3-instance-not-increasing-across-restart",
                        format!("task {:?}: journal holds instance {m}, restored with instance {}", rt.t, rt.instance),
                    );
                }
            }
        }
        // reset per-incarnation tracking
        self.auto.clear();
        self.hq_running.clear();
        self.last_started_instance.clear();
        self.credit.clear();
        self.canceled_on.clear();
        self.retract_confirmed.clear();
        self.requeue_watch.clear();
        self.last_end_on.clear();
        self.retracted_with.clear();
        self.exec_instances.clear();
        self.mn_sets.clear();
        self.journal_seq.clear();
        self.live_seq.clear();
        // tasks finished/failed according to the kept prefix
        self.finished_tasks = self.kept_finished.clone();
    }

    pub fn drain_started(&mut self, _sim: &Sim) {}

    /* ------------------------------ end of run ----------------------------------------------- */

    pub fn at_end(&mut self, sim: &Sim, quiescent: bool, out: &mut Vec<Violation>) {
        let step = self.step;
        let jobs = sim.jobs();
        // journal and live listeners see the same announcements
        if self.journal_seq != self.live_seq {
            let n = self.journal_seq.iter().zip(self.live_seq.iter()).take_while(|(a, b)| a == b).count();
            viol(
                out,
                step,
                "C01",
                "R0-journal-and-clients-differ",
                format!(
                    "announcement #{n}: journal {:?} vs clients {:?}",
                    self.journal_seq.get(n),
                    self.live_seq.get(n)
                ),
            );
        }
        // C03-D2: dependents of failed/canceled tasks never start and end aborted/canceled
        let all: Vec<Tid> = self.tasks.keys().copied().collect();
        for t in &all {
            if self.has_bad_ancestor(*t) {
                self.count("dep.dependents_of_bad", 1);
                let late = self.tasks.get(t).map(|i| i.late_dependent).unwrap_or(false) || self.has_late_ancestor(*t);
                if late {
                    // judged at the start (rule D2-late-dependent-of-failed-task-runs)
                    continue;
                }
                if self.exec_started.contains(t) || self.ever_started_ev.contains(t) {
                    viol(
                        out,
                        step,
                        "C03",
                        "D2-dependent-of-failed-task-started",
                        format!("task {t:?} depends (transitively) on a failed/canceled task but was started"),
                    );
                }
                if quiescent {
                    if let Some(s) = task_state(&jobs, *t) {
                        if !matches!(s, TaskStateLite::Aborted | TaskStateLite::Canceled) {
                            viol(
                                out,
                                step,
                                "C03",
                                "D2-dependent-of-failed-task-not-aborted",
                                format!("task {t:?} depends (transitively) on a failed/canceled task but ended {s:?}"),
                            );
                        }
                    }
                }
            }
        }
        if !quiescent {
            return;
        }
        self.count("quiescent", 1);
        // C02-S2/S3: nothing is stuck
        for j in &jobs {
            let stuck: Vec<u32> = j.tasks.iter().filter(|(_, s)| !s.is_terminal()).map(|x| x.0).collect();
            if !stuck.is_empty() {
                let core = sim.core_snapshot();
                let detail: Vec<String> = stuck
                    .iter()
                    .take(4)
                    .map(|id| {
                        let st = core.tasks.iter().find(|x| conv::tid(x.id) == (j.id, *id)).map(|x| format!("{:?}", x.state));
                        format!("{id}:{st:?}")
                    })
                    .collect();
                viol(
                    out,
                    step,
                    "C02",
                    "S2-task-stuck",
                    format!("at rest with capable workers connected, job {} still has unfinished tasks {detail:?} ({} in total)", j.id, stuck.len()),
                );
                // C08: tasks of other jobs are unaffected by a cancel
                let other_job_canceled = self.canceled_tasks.iter().any(|t| t.0 != j.id);
                let this_job_canceled = self.canceled_tasks.iter().any(|t| t.0 == j.id);
                if other_job_canceled && !this_job_canceled {
                    viol(
                        out,
                        step,
                        "C08",
                        "K6-task-of-other-job-stuck-after-cancel",
                        format!("another job was canceled during the run; at rest job {} (never canceled) still has unfinished tasks {detail:?}", j.id),
                    );
                }
            } else {
                self.count("job.all_terminal", 1);
            }
            // exactly one terminal announcement per task
            if !self.restarted {
                for (id, _) in &j.tasks {
                    if !matches!(self.auto.get(&(j.id, *id)), Some(Auto::Terminal(_))) {
                        viol(out, step, "C01", "R1-no-terminal-outcome", format!("task {:?} has no terminal announcement at the end", (j.id, id)));
                    }
                }
            }
        }
        // C13-B4: submit-and-wait clients got their completion report
        let inc = sim.shared.borrow().incarnation;
        for (i, c) in sim.clients.iter().enumerate() {
            if c.incarnation != inc {
                continue;
            }
            // (a client that got its report hangs up and is `Closed` by now; one whose stream the
            // server closed without the report is `Closed` as well - that is the violation)
            if c.state == ClientState::Streaming || c.state == ClientState::Closed {
                if c.left_early {
                    self.count("stream.clients_that_left_early", 1);
                    continue;
                }
                if let Some(j) = c.stream_job {
                    self.count("stream.clients", 1);
                    let completed = self.job_completed_events.get(&j).copied().unwrap_or(0) > 0;
                    if completed && !c.stream_completed {
                        viol(
                            out,
                            step,
                            "C13",
                            "B4-waiting-client-never-told",
                            format!("client {i} submitted job {j} with wait; the job completed but the client never received its completion report"),
                        );
                    }
                    if completed && c.stream_completed {
                        self.count("stream.completed_received", 1);
                    }
                }
            }
        }
    }
}

pub fn state_name(s: &TaskStateSnapshot) -> &'static str {
    match s {
        TaskStateSnapshot::Waiting { .. } => "waiting",
        TaskStateSnapshot::Assigned { .. } => "assigned",
        TaskStateSnapshot::Prefilled { .. } => "prefilled",
        TaskStateSnapshot::Retracting { .. } => "retracting",
        TaskStateSnapshot::Running { .. } => "running",
        TaskStateSnapshot::RunningMultiNode(_) => "running_mn",
        TaskStateSnapshot::Finished => "finished",
    }
}

/// The oracle's own arithmetic of what is placed on each single-node worker.
/// Returns messages starting with "overbooked"/"incapable" (C05-P1/P2) or "accounting" (the
/// server's own free-resource bookkeeping disagrees with the sum).
/// Replays the task updates of one worker message on the oracle's own books (amounts of the
/// variants from the request map): was worker `w` over-committed at some point inside the message?
fn transient_overcommit(prev: &CoreSnapshot, _now: &CoreSnapshot, w: Wid, updates: &[UpdateLite]) -> bool {
    let Some(ws) = prev.workers.iter().find(|x| x.id.as_num() == w) else { return false };
    let n = ws.resources.len();
    let need = |core: &CoreSnapshot, t: &tako::verif::TaskSnapshot, rv: tako::ResourceVariantId| -> Vec<u64> {
        let mut v = vec![0u64; n];
        let rq = core.requests.get(t.resource_rq_id.into()).get(rv);
        for e in rq.entries() {
            let r = e.resource_id.as_usize();
            if r < n {
                v[r] += e.request.amount_or_none_if_all().map(|a| a.total_fractions()).unwrap_or(ws.resources[r]);
            }
        }
        v
    };
    // what is placed on w before the message: (task, amounts)
    let mut placed: BTreeMap<Tid, Vec<u64>> = BTreeMap::new();
    for t in &prev.tasks {
        let rv = match &t.state {
            TaskStateSnapshot::Assigned { worker_id, rv_id } | TaskStateSnapshot::Running { worker_id, rv_id } if worker_id.as_num() == w => Some(*rv_id),
            TaskStateSnapshot::Retracting { .. } => prev.redirects.iter().find(|r| r.0 == t.id && r.1.as_num() == w).map(|r| r.2),
            _ => None,
        };
        if let Some(rv) = rv {
            placed.insert(conv::tid(t.id), need(prev, t, rv));
        }
    }
    let over = |placed: &BTreeMap<Tid, Vec<u64>>| (0..n).any(|r| placed.values().map(|v| v[r]).sum::<u64>() > ws.resources[r]);
    for u in updates {
        match u {
            UpdateLite::RunningPrefilled(t, rv) | UpdateLite::Running(t, rv) => {
                // the task occupies the variant the worker started it in (if the server still knows it)
                if let Some(ts) = prev.tasks.iter().find(|x| conv::tid(x.id) == *t) {
                    placed.insert(*t, need(prev, ts, ((*rv) as u8).into()));
                }
            }
            UpdateLite::Finished(t) | UpdateLite::Failed(t, _) | UpdateLite::Reject(t, _) => {
                placed.remove(t);
            }
            UpdateLite::Enable(..) => {}
        }
        if over(&placed) {
            return true;
        }
    }
    false
}

pub fn accounting_errors(core: &CoreSnapshot) -> Vec<String> {
    let mut errs = Vec::new();
    for w in &core.workers {
        let WorkerAssignmentSnapshot::Sn { free, .. } = &w.assignment else {
            continue;
        };
        let n = w.resources.len();
        let mut used = vec![0u64; n];
        let mut all_holders = vec![0u32; n];
        let mut holders = vec![0u32; n];
        for t in &core.tasks {
            let placed_rv = match &t.state {
                TaskStateSnapshot::Assigned { worker_id, rv_id } | TaskStateSnapshot::Running { worker_id, rv_id } if *worker_id == w.id => Some(*rv_id),
                TaskStateSnapshot::Retracting { .. } => core
                    .redirects
                    .iter()
                    .find(|r| r.0 == t.id && r.1 == w.id)
                    .map(|r| r.2),
                _ => None,
            };
            let Some(rv) = placed_rv else { continue };
            let rq = core.requests.get(t.resource_rq_id.into()).get(rv);
            for e in rq.entries() {
                let r = e.resource_id.as_usize();
                let have = w.resources.get(r).copied().unwrap_or(0);
                match e.request.amount_or_none_if_all() {
                    Some(a) => {
                        if r >= n || a.total_fractions() > have {
                            errs.push(format!(
                                "incapable: task {:?} asks {} of resource {r} on worker {} which has {have}",
                                conv::tid(t.id),
                                a.total_fractions(),
                                w.id
                            ));
                        }
                        if r < n {
                            used[r] += a.total_fractions();
                            holders[r] += 1;
                        }
                    }
                    None => {
                        if r >= n || have == 0 {
                            errs.push(format!("incapable: task {:?} asks all of resource {r} on worker {} which has none", conv::tid(t.id), w.id));
                        }
                        if r < n {
                            used[r] += have;
                            all_holders[r] += 1;
                            holders[r] += 1;
                        }
                    }
                }
            }
        }
        for r in 0..n {
            if used[r] > w.resources[r] || (all_holders[r] > 0 && holders[r] > 1) {
                errs.push(format!(
                    "overbooked: worker {} resource {r}: placed tasks ask {} ({} holders, {} of them `all`) of {}",
                    w.id, used[r], holders[r], all_holders[r], w.resources[r]
                ));
            } else if free.get(r).copied().unwrap_or(0) != w.resources[r] - used[r] {
                errs.push(format!(
                    "accounting: worker {} resource {r}: server counts {} free, placed tasks leave {}",
                    w.id,
                    free.get(r).copied().unwrap_or(0),
                    w.resources[r] - used[r]
                ));
            }
        }
    }
    errs
}

/// Independent re-statement of the cross-structure invariants (`Core::sanity_check` exists only
/// under cfg(test)).
pub fn consistency_errors(core: &CoreSnapshot) -> Vec<String> {
    let mut errs = Vec::new();
    let task = |id: tako::TaskId| core.tasks.iter().find(|t| t.id == id);
    let worker = |id: tako::WorkerId| core.workers.iter().find(|w| w.id == id);
    for w in &core.workers {
        match &w.assignment {
            WorkerAssignmentSnapshot::Sn { assigned, prefilled, .. } => {
                for t in assigned {
                    match task(*t).map(|x| &x.state) {
                        Some(TaskStateSnapshot::Assigned { worker_id, .. }) | Some(TaskStateSnapshot::Running { worker_id, .. }) if *worker_id == w.id => {}
                        Some(TaskStateSnapshot::Retracting { .. }) if core.redirects.iter().any(|r| r.0 == *t && r.1 == w.id) => {}
                        other => errs.push(format!("worker {} lists {:?} as assigned but the task is {other:?}", w.id, conv::tid(*t))),
                    }
                }
                for t in prefilled {
                    match task(*t).map(|x| &x.state) {
                        Some(TaskStateSnapshot::Prefilled { worker_id }) if *worker_id == w.id => {}
                        other => errs.push(format!("worker {} lists {:?} as prefilled but the task is {other:?}", w.id, conv::tid(*t))),
                    }
                }
            }
            WorkerAssignmentSnapshot::Mn { task_id, .. } => match task(*task_id).map(|x| &x.state) {
                Some(TaskStateSnapshot::RunningMultiNode(ws)) if ws.contains(&w.id) => {}
                other => errs.push(format!("worker {} is reserved for {:?} which is {other:?}", w.id, conv::tid(*task_id))),
            },
        }
    }
    for t in &core.tasks {
        let id = conv::tid(t.id);
        let in_ready = core
            .queues
            .iter()
            .any(|q| q.ready.iter().any(|(_, ts)| ts.contains(&t.id)));
        let in_prefill = core
            .queues
            .iter()
            .any(|q| q.prefill.as_ref().map(|(_, ts)| ts.contains(&t.id)).unwrap_or(false));
        match &t.state {
            TaskStateSnapshot::Waiting { unfinished_deps } => {
                let n = t
                    .deps
                    .iter()
                    .filter(|d| task(**d).map(|x| x.state != TaskStateSnapshot::Finished).unwrap_or(false))
                    .count() as u32;
                if n != *unfinished_deps {
                    errs.push(format!("task {id:?} counts {unfinished_deps} unfinished dependencies but {n} of its dependencies are unfinished"));
                }
                if (*unfinished_deps == 0) != in_ready {
                    errs.push(format!("task {id:?} waits for {unfinished_deps} dependencies, in ready queue: {in_ready}"));
                }
                if in_prefill {
                    errs.push(format!("waiting task {id:?} is in a prefill set"));
                }
            }
            TaskStateSnapshot::Assigned { worker_id, .. } | TaskStateSnapshot::Running { worker_id, .. } => {
                match worker(*worker_id).map(|w| &w.assignment) {
                    Some(WorkerAssignmentSnapshot::Sn { assigned, .. }) if assigned.contains(&t.id) => {}
                    other => errs.push(format!("task {id:?} is placed on worker {worker_id} whose assignment is {other:?}")),
                }
                if in_ready || in_prefill {
                    errs.push(format!("placed task {id:?} is still in a queue (ready {in_ready}, prefill {in_prefill})"));
                }
            }
            TaskStateSnapshot::Prefilled { worker_id } => {
                match worker(*worker_id).map(|w| &w.assignment) {
                    Some(WorkerAssignmentSnapshot::Sn { prefilled, .. }) if prefilled.contains(&t.id) => {}
                    other => errs.push(format!("task {id:?} is prefilled on worker {worker_id} whose assignment is {other:?}")),
                }
                if !in_prefill {
                    errs.push(format!("prefilled task {id:?} is not in the prefill set of its queue"));
                }
            }
            TaskStateSnapshot::Retracting { worker_id } => {
                if worker(*worker_id).is_none() {
                    errs.push(format!("task {id:?} is being retracted from unknown worker {worker_id}"));
                }
                let redirected = core.redirects.iter().any(|r| r.0 == t.id);
                if redirected == in_ready {
                    errs.push(format!("retracting task {id:?}: redirect {redirected}, in ready queue {in_ready}"));
                }
            }
            TaskStateSnapshot::RunningMultiNode(ws) => {
                if ws.is_empty() {
                    errs.push(format!("multi-node task {id:?} holds no worker"));
                }
                if in_ready || in_prefill {
                    errs.push(format!("running multi-node task {id:?} is still in a queue"));
                }
            }
            TaskStateSnapshot::Finished => {}
        }
    }
    for q in &core.queues {
        for (_, ts) in &q.ready {
            for t in ts {
                if task(*t).is_none() {
                    errs.push(format!("ready queue {} holds unknown task {:?}", q.resource_rq_id, conv::tid(*t)));
                }
            }
        }
        if let Some((_, ts)) = &q.prefill {
            for t in ts {
                if task(*t).is_none() {
                    errs.push(format!("prefill set {} holds unknown task {:?}", q.resource_rq_id, conv::tid(*t)));
                }
            }
        }
    }
    for (t, w, _) in &core.redirects {
        match task(*t).map(|x| &x.state) {
            Some(TaskStateSnapshot::Retracting { .. }) => {}
            other => errs.push(format!("redirect of {:?} to worker {w} but the task is {other:?}", conv::tid(*t))),
        }
        if worker(*w).is_none() {
            errs.push(format!("redirect of {:?} to unknown worker {w}", conv::tid(*t)));
        }
    }
    errs
}
