//! Conversions between the harness' plain specs and the repository's real types.

use std::path::PathBuf;
use std::time::Duration;

use hyperqueue::common::arraydef::IntArray;
use hyperqueue::server::event::payload::EventPayload;
use hyperqueue::server::job::{JobTaskCounters, JobTaskState};
use hyperqueue::transfer::messages::{
    CancelJobResponse, CloseJobResponse, JobDescription, JobDetail, JobSubmitDescription,
    JobTaskDescription, LocalResourceRqId, PinMode, StopWorkerResponse, SubmitRequest,
    SubmitResponse, TaskDescription, TaskKind, TaskKindProgram, TaskWithDependencies,
    ToClientMessage,
};
use tako::gateway::{
    CrashLimit, LostWorkerReason, ResourceRequest, ResourceRequestEntry, ResourceRequestVariants,
};
use tako::internal::messages::worker::{
    FromWorkerMessage, ToWorkerMessage, WorkerTaskUpdate,
};
use tako::program::{ProgramDefinition, StdioDef};
use tako::resources::{
    AllocationRequest, ResourceAmount, ResourceDescriptor, ResourceDescriptorItem,
    ResourceDescriptorKind, ResourceWeight,
};
use tako::worker::{ServerLostPolicy, WorkerConfiguration};
use tako::{JobTaskId, TaskId, UserPriority};

use super::types::*;

pub fn tid(t: TaskId) -> Tid {
    (t.job_id().as_num(), t.job_task_id().as_num())
}

pub fn task_id(t: Tid) -> TaskId {
    TaskId::new(t.0.into(), t.1.into())
}

pub fn reason_from(r: LostWorkerReason) -> Reason {
    match r {
        LostWorkerReason::Stopped => Reason::Stopped,
        LostWorkerReason::ConnectionLost => Reason::ConnectionLost,
        LostWorkerReason::HeartbeatLost => Reason::HeartbeatLost,
        LostWorkerReason::IdleTimeout => Reason::IdleTimeout,
        LostWorkerReason::TimeLimitReached => Reason::TimeLimitReached,
    }
}

pub fn reason_to(r: Reason) -> LostWorkerReason {
    match r {
        Reason::Stopped => LostWorkerReason::Stopped,
        Reason::ConnectionLost => LostWorkerReason::ConnectionLost,
        Reason::HeartbeatLost => LostWorkerReason::HeartbeatLost,
        Reason::IdleTimeout => LostWorkerReason::IdleTimeout,
        Reason::TimeLimitReached => LostWorkerReason::TimeLimitReached,
    }
}

pub fn amount(fractions: u64) -> ResourceAmount {
    ResourceAmount::new((fractions / 10_000) as u32, (fractions % 10_000) as u32)
}

pub fn descriptor(resources: &[ResSpec]) -> ResourceDescriptor {
    let items = resources
        .iter()
        .map(|r| ResourceDescriptorItem {
            name: r.name.clone(),
            kind: match &r.kind {
                ResKind::Range(n) => ResourceDescriptorKind::Range {
                    start: 0.into(),
                    end: (*n - 1).into(),
                },
                ResKind::List(n) => ResourceDescriptorKind::List {
                    values: (0..*n).map(|i| format!("L{i}")).collect(),
                },
                ResKind::Groups(gs) => {
                    let mut k = 0;
                    ResourceDescriptorKind::Groups {
                        groups: gs
                            .iter()
                            .map(|n| {
                                (0..*n)
                                    .map(|_| {
                                        k += 1;
                                        format!("{}", k - 1)
                                    })
                                    .collect()
                            })
                            .collect(),
                    }
                }
                ResKind::Sum(a) => ResourceDescriptorKind::Sum { size: amount(*a) },
            },
        })
        .collect();
    ResourceDescriptor::new(items, Default::default())
}

pub fn worker_configuration(spec: &WorkerSpec, serial: u32) -> WorkerConfiguration {
    WorkerConfiguration {
        resources: descriptor(&spec.resources),
        listen_address: format!("host{serial}:1234"),
        hostname: format!("host{serial}"),
        group: spec.group.clone(),
        work_dir: PathBuf::from("/tmp/hqv-unused"),
        heartbeat_interval: Duration::from_secs(8),
        overview_configuration: Default::default(),
        idle_timeout: None,
        time_limit: spec.time_limit_s.map(Duration::from_secs),
        retract_check_interval: Duration::from_secs(5),
        on_server_lost: ServerLostPolicy::Stop,
        min_utilization: 0.0,
        extra: Default::default(),
    }
}

pub fn request(spec: &ReqSpec) -> ResourceRequestVariants {
    ResourceRequestVariants {
        variants: spec
            .variants
            .iter()
            .map(|v| ResourceRequest {
                n_nodes: v.n_nodes,
                resources: v
                    .entries
                    .iter()
                    .map(|e| ResourceRequestEntry {
                        resource: e.resource.clone(),
                        policy: match e.policy {
                            Policy::Compact => AllocationRequest::Compact(amount(e.amount)),
                            Policy::Tight => AllocationRequest::Tight(amount(e.amount)),
                            Policy::Scatter => AllocationRequest::Scatter(amount(e.amount)),
                            Policy::ForceCompact => {
                                AllocationRequest::ForceCompact(amount(e.amount))
                            }
                            Policy::ForceTight => AllocationRequest::ForceTight(amount(e.amount)),
                            Policy::All => AllocationRequest::All,
                        },
                    })
                    .collect(),
                min_time: Duration::from_secs(v.min_time_s),
                weight: ResourceWeight::default(),
            })
            .collect(),
    }
}

fn task_description(a: &TaskAttrs) -> TaskDescription {
    TaskDescription {
        kind: TaskKind::ExternalProgram(TaskKindProgram {
            program: ProgramDefinition {
                args: vec!["true".into()],
                env: Default::default(),
                stdout: StdioDef::Null,
                stderr: StdioDef::Null,
                stdin: Vec::new(),
                cwd: PathBuf::from("/tmp"),
            },
            pin_mode: PinMode::None,
            task_dir: false,
        }),
        time_limit: a.time_limit_s.map(Duration::from_secs),
        priority: UserPriority::new(a.prio),
        crash_limit: match a.crash {
            CrashSpec::Never => CrashLimit::NeverRestart,
            CrashSpec::Max(n) => CrashLimit::MaxCrashes(n),
            CrashSpec::Unlimited => CrashLimit::Unlimited,
        },
    }
}

pub fn int_array(ids: &[u32]) -> IntArray {
    let mut v = ids.to_vec();
    v.sort_unstable();
    v.dedup();
    IntArray::from_sorted_ids(v.into_iter())
}

pub fn submit_request(job: Option<Jid>, max_fails: Option<u32>, spec: &SubmitSpec) -> SubmitRequest {
    let task_desc = match spec {
        SubmitSpec::Array {
            ids,
            entries,
            req,
            attrs,
        } => JobTaskDescription::Array {
            ids: match ids {
                Some(ids) => int_array(ids),
                None => IntArray::new_empty(),
            },
            entries: entries.map(|n| {
                (0..n)
                    .map(|i| format!("e{i}").into_bytes().into())
                    .collect()
            }),
            resource_rq: request(req),
            task_desc: task_description(attrs),
        },
        SubmitSpec::Graph { reqs, tasks } => JobTaskDescription::Graph {
            resource_rqs: reqs.iter().map(request).collect(),
            tasks: tasks
                .iter()
                .map(|t| TaskWithDependencies {
                    id: JobTaskId::new(t.id),
                    resource_rq_id: LocalResourceRqId::new(t.req as u32),
                    task_desc: task_description(&t.attrs),
                    task_deps: t.deps.iter().map(|d| JobTaskId::new(*d)).collect(),
                })
                .collect(),
        },
    };
    SubmitRequest {
        job_desc: JobDescription {
            name: "j".to_string(),
            max_fails,
        },
        submit_desc: JobSubmitDescription {
            task_desc,
            submit_dir: PathBuf::from("/tmp"),
            stream_path: None,
        },
        job_id: job.map(|j| j.into()),
    }
}

/* -------------------------------- real -> lite --------------------------------------------- */

pub fn ev(p: &EventPayload) -> Ev {
    match p {
        EventPayload::WorkerConnected(w, _) => Ev::WorkerConnected(w.as_num()),
        EventPayload::WorkerLost(w, r) => Ev::WorkerLost(w.as_num(), reason_from(*r)),
        EventPayload::WorkerOverviewReceived(_) => Ev::Other,
        EventPayload::Submit {
            job_id, closed_job, ..
        } => Ev::Submit {
            job: job_id.as_num(),
            closed: *closed_job,
        },
        EventPayload::JobCompleted(j) => Ev::JobCompleted(j.as_num()),
        EventPayload::JobOpen(j, _) => Ev::JobOpen(j.as_num()),
        EventPayload::JobClose(j) => Ev::JobClose(j.as_num()),
        EventPayload::JobIdle(j) => Ev::JobIdle(j.as_num()),
        EventPayload::JobCancel { job_id, .. } => Ev::JobCancel(job_id.as_num()),
        EventPayload::TaskStarted {
            task_id,
            instance_id,
            worker_ids,
            rv_id,
        } => Ev::TaskStarted {
            t: tid(*task_id),
            instance: instance_id.as_num(),
            workers: worker_ids.iter().map(|w| w.as_num()).collect(),
            rv: rv_id.as_num() as u32,
        },
        EventPayload::TaskFinished { task_id } => Ev::TaskFinished(tid(*task_id)),
        EventPayload::TaskFailed { task_id, error } => Ev::TaskFailed {
            t: tid(*task_id),
            msg: error.clone(),
        },
        EventPayload::TasksCanceled { task_ids } => {
            Ev::TasksCanceled(task_ids.iter().map(|t| tid(*t)).collect())
        }
        EventPayload::TasksAborted { task_ids } => {
            Ev::TasksAborted(task_ids.iter().map(|t| tid(*t)).collect())
        }
        EventPayload::AllocationQueueCreated(q, _) => Ev::QueueCreated(*q),
        EventPayload::AllocationQueueRemoved(q) => Ev::QueueRemoved(*q),
        EventPayload::AllocationQueued {
            queue_id,
            allocation_id,
            worker_count,
        } => Ev::AllocQueued {
            queue: *queue_id,
            alloc: allocation_id.clone(),
            workers: *worker_count,
        },
        EventPayload::AllocationStarted(q, a) => Ev::AllocStarted(*q, a.clone()),
        EventPayload::AllocationFinished(q, a) => Ev::AllocFinished(*q, a.clone()),
        EventPayload::ServerStart { .. } => Ev::ServerStart,
        EventPayload::ServerStop => Ev::ServerStop,
        EventPayload::TaskNotify(_) => Ev::Other,
    }
}

pub fn to_worker_lite(m: &ToWorkerMessage) -> ToWorkerLite {
    match m {
        ToWorkerMessage::ComputeTasks(msg) => ToWorkerLite::Compute(
            msg.tasks
                .iter()
                .map(|t| {
                    (
                        tid(t.id),
                        t.instance_id.as_num(),
                        t.resource_rq_variant.map(|v| v.as_num() as u32),
                        t.node_list.iter().map(|w| w.as_num()).collect(),
                    )
                })
                .collect(),
        ),
        ToWorkerMessage::RetractTasks(m) => {
            ToWorkerLite::Retract(m.ids.iter().map(|t| tid(*t)).collect())
        }
        ToWorkerMessage::CancelTasks(m) => {
            ToWorkerLite::Cancel(m.ids.iter().map(|t| tid(*t)).collect())
        }
        ToWorkerMessage::NewWorker(m) => ToWorkerLite::NewWorker(m.worker_id.as_num()),
        ToWorkerMessage::LostWorker(w) => ToWorkerLite::LostWorker(w.as_num()),
        ToWorkerMessage::SetOverviewIntervalOverride(_) => ToWorkerLite::Other,
        ToWorkerMessage::NewResourceRequest(id, _) => ToWorkerLite::NewRequest(id.as_num()),
        ToWorkerMessage::Stop => ToWorkerLite::Stop,
    }
}

pub fn from_worker_lite(m: &FromWorkerMessage) -> FromWorkerLite {
    match m {
        FromWorkerMessage::TaskUpdate(ups) => FromWorkerLite::Updates(
            ups.iter()
                .map(|u| match u {
                    WorkerTaskUpdate::Finished { task_id } => UpdateLite::Finished(tid(*task_id)),
                    WorkerTaskUpdate::Failed { task_id, info } => {
                        UpdateLite::Failed(tid(*task_id), info.message.clone())
                    }
                    WorkerTaskUpdate::Running(m) => {
                        UpdateLite::Running(tid(m.task_id), m.rv_id.as_num() as u32)
                    }
                    WorkerTaskUpdate::RunningPrefilled(m) => {
                        UpdateLite::RunningPrefilled(tid(m.task_id), m.rv_id.as_num() as u32)
                    }
                    WorkerTaskUpdate::RejectRequest { task_id, rv_id } => {
                        UpdateLite::Reject(tid(*task_id), rv_id.map(|v| v.as_num() as u32))
                    }
                    WorkerTaskUpdate::EnableRequest {
                        resource_rq_id,
                        rv_id,
                    } => UpdateLite::Enable(resource_rq_id.as_num(), rv_id.as_num() as u32),
                })
                .collect(),
        ),
        FromWorkerMessage::RetractResponse(m) => {
            FromWorkerLite::RetractResponse(m.retracted.iter().map(|t| tid(*t)).collect())
        }
        _ => FromWorkerLite::Other,
    }
}

pub fn counters_lite(c: &JobTaskCounters) -> CountersLite {
    CountersLite {
        running: c.n_running_tasks,
        finished: c.n_finished_tasks,
        failed: c.n_failed_tasks,
        canceled: c.n_canceled_tasks,
        aborted: c.n_aborted_tasks,
    }
}

pub fn task_state_lite(s: &JobTaskState) -> TaskStateLite {
    match s {
        JobTaskState::Waiting => TaskStateLite::Waiting,
        JobTaskState::Running { started_data } => TaskStateLite::Running {
            workers: started_data.worker_ids.iter().map(|w| w.as_num()).collect(),
            instance: started_data.context.instance_id.as_num(),
        },
        JobTaskState::Finished { .. } => TaskStateLite::Finished,
        JobTaskState::Failed {
            error,
            started_data,
            ..
        } => TaskStateLite::Failed {
            msg: error.clone(),
            started: started_data.is_some(),
        },
        JobTaskState::Canceled { .. } => TaskStateLite::Canceled,
        JobTaskState::Aborted { .. } => TaskStateLite::Aborted,
    }
}

pub fn job_lite(d: &JobDetail) -> JobLite {
    JobLite {
        id: d.info.id.as_num(),
        n_tasks: d.info.n_tasks,
        counters: counters_lite(&d.info.counters),
        is_open: d.info.is_open,
        max_fails: d.job_desc.max_fails,
        tasks: d
            .tasks
            .iter()
            .map(|(id, info)| (id.as_num(), task_state_lite(&info.state)))
            .collect(),
        completed: false,
        status: String::new(),
    }
}

pub fn resp_lite(m: &ToClientMessage) -> RespLite {
    match m {
        ToClientMessage::SubmitResponse(r) => match r {
            SubmitResponse::Ok { job, .. } => RespLite::SubmitOk {
                job: job.info.id.as_num(),
                task_ids: job.tasks.iter().map(|(id, _)| id.as_num()).collect(),
            },
            SubmitResponse::JobNotOpened => RespLite::SubmitRejected("JobNotOpened".into()),
            SubmitResponse::JobNotFound => RespLite::SubmitRejected("JobNotFound".into()),
            SubmitResponse::TaskIdAlreadyExists(t) => {
                RespLite::SubmitRejected(format!("TaskIdAlreadyExists({t})"))
            }
            SubmitResponse::NonUniqueTaskId(t) => {
                RespLite::SubmitRejected(format!("NonUniqueTaskId({t})"))
            }
            SubmitResponse::InvalidDependencies(t) => {
                RespLite::SubmitRejected(format!("InvalidDependencies({t})"))
            }
        },
        ToClientMessage::OpenJobResponse(r) => RespLite::Opened(r.job_id.as_num()),
        ToClientMessage::CloseJobResponse(rs) => RespLite::Closed(
            rs.iter()
                .map(|(j, r)| {
                    (
                        j.as_num(),
                        match r {
                            CloseJobResponse::Closed => "Closed",
                            CloseJobResponse::InvalidJob => "InvalidJob",
                            CloseJobResponse::AlreadyClosed => "AlreadyClosed",
                        }
                        .to_string(),
                    )
                })
                .collect(),
        ),
        ToClientMessage::CancelJobResponse(rs) => RespLite::Canceled(
            rs.iter()
                .map(|(j, r)| {
                    (
                        j.as_num(),
                        match r {
                            CancelJobResponse::Canceled(ids, n) => {
                                Some((ids.iter().map(|i| i.as_num()).collect(), *n))
                            }
                            CancelJobResponse::InvalidJob => None,
                            CancelJobResponse::Failed(_) => None,
                        },
                    )
                })
                .collect(),
        ),
        ToClientMessage::ForgetJobResponse(r) => RespLite::Forgotten {
            forgotten: r.forgotten,
            ignored: r.ignored,
        },
        ToClientMessage::JobInfoResponse(r) => RespLite::Info(
            r.jobs
                .iter()
                .map(|j| {
                    (
                        j.id.as_num(),
                        j.n_tasks,
                        counters_lite(&j.counters),
                        j.is_open,
                    )
                })
                .collect(),
        ),
        ToClientMessage::JobDetailResponse(r) => RespLite::Detail(
            r.details
                .iter()
                .map(|(j, d)| (j.as_num(), d.as_ref().map(job_lite)))
                .collect(),
        ),
        ToClientMessage::StopWorkerResponse(rs) => RespLite::StopWorker(
            rs.iter()
                .map(|(w, r)| {
                    (
                        w.as_num(),
                        match r {
                            StopWorkerResponse::Stopped => "Stopped".to_string(),
                            StopWorkerResponse::AlreadyStopped => "AlreadyStopped".to_string(),
                            StopWorkerResponse::InvalidWorker => "InvalidWorker".to_string(),
                            StopWorkerResponse::Failed(e) => format!("Failed({e})"),
                        },
                    )
                })
                .collect(),
        ),
        ToClientMessage::Finished => RespLite::Finished,
        ToClientMessage::Event(e) => RespLite::Event(ev(&e.payload)),
        ToClientMessage::Error(e) => RespLite::Error(e.clone()),
        _ => RespLite::Other,
    }
}
