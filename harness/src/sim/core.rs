//! E1 — the in-process cluster simulation.
//!
//! Real: tako `Core`/`CommSender`/reactor/scheduler (through `tako::verif::SimServer`), the real
//! server-side `worker_receive_loop`, one real `WorkerState` per worker (`SimWorker`), the real
//! HQ `State`/`Job`/`UpstreamEventProcessor`/`EventStreamer`, the real `client_rpc_loop`.
//! Fake: the task launcher, the transport (in-memory FIFOs owned by the harness), the journal
//! sink (the harness receives every `EventStreamMessage`).

use std::cell::{Cell, RefCell};
use std::collections::{BTreeMap, VecDeque};
use std::path::PathBuf;
use std::pin::Pin;
use std::rc::Rc;
use std::sync::Arc;
use std::task::{Context, Poll, Waker};
use std::time::{Duration, Instant};

use bytes::{Bytes, BytesMut};
use futures::channel::mpsc as fmpsc;
use futures::{SinkExt, Stream, StreamExt};
use tokio::sync::mpsc::UnboundedReceiver;
use tokio::sync::{Notify, oneshot};
use tokio::task::JoinHandle;

use hyperqueue::common::serverdir::{ConnectAccessRecordPart, FullAccessRecord, ServerDir};
use hyperqueue::server::Senders;
use hyperqueue::server::autoalloc::create_autoalloc_service;
use hyperqueue::server::client::client_rpc_loop;
use hyperqueue::server::event::Event;
use hyperqueue::server::event::journal::EventStreamMessage;
use hyperqueue::server::event::streamer::{EventFilter, EventFilterFlags, EventStreamer};
use hyperqueue::server::state::StateRef;
use hyperqueue::transfer::messages::{
    CancelRequest, CloseJobRequest, ForgetJobRequest, FromClientMessage, IdSelector,
    JobDetailRequest, JobInfoRequest, ServerInfo, StopWorkerMessage, StreamEvents,
    StreamEventsMode, TaskIdSelector, TaskSelector, TaskStatusSelector, ToClientMessage,
};
use hyperqueue::worker::start::RunningTaskContext;
use tako::events::EventProcessor;
use tako::gateway::LostWorkerReason;
use tako::internal::messages::common::TaskFailInfo;
use tako::internal::messages::worker::{FromWorkerMessage, ToWorkerMessage};
use tako::launcher::{StopReason, TaskBuildContext, TaskLaunchData, TaskLauncher, TaskResult};
use tako::server::SchedulerConfig;
use tako::task::SerializedTaskContext;
use tako::verif::{AllocationSnapshot, CoreSnapshot, SimServer, SimWorker, WorkerStateSnapshot};
use tako::worker::{WorkerConfiguration, WorkerOverview};
use tako::{InstanceId, ResourceVariantId, Set, TaskId, WorkerId};

use super::conv;
use super::types::*;

/* ------------------------------------------------------------------------------------------- */
/* shared log                                                                                  */
/* ------------------------------------------------------------------------------------------- */

pub enum FinishCmd {
    Ok,
    Fail(String),
}

pub struct ExecRec {
    pub w: Wid,
    pub t: Tid,
    pub instance: u32,
    pub rv: u32,
    pub alloc: AllocLite,
    pub nodes: Vec<Wid>,
    pub open: bool,
    pub stopped: Option<bool>, // Some(timeout?)
    pub finish_tx: Option<oneshot::Sender<FinishCmd>>,
    pub start_step: u32,
    pub start_s: u64,
    pub time_limit_s: Option<u64>,
    pub incarnation: u32,
}

pub struct SharedInner {
    pub step: u32,
    pub log: Vec<(u32, Obs)>,
    pub execs: Vec<ExecRec>,
    pub vnow_s: u64,
    pub incarnation: u32,
}

pub type Shared = Rc<RefCell<SharedInner>>;

fn push(shared: &Shared, obs: Obs) {
    let mut s = shared.borrow_mut();
    let step = s.step;
    s.log.push((step, obs));
}

/* ------------------------------------------------------------------------------------------- */
/* fake launcher                                                                               */
/* ------------------------------------------------------------------------------------------- */

pub struct FakeLauncher {
    shared: Shared,
    w: Wid,
    arm_fail: Rc<Cell<bool>>,
    /// the next execution that is told to stop on this worker takes its time to die: it ends only
    /// when the harness lets it (a process that does not exit at once on the signal)
    arm_slow_stop: Rc<Cell<u32>>,
    inert: Rc<Cell<bool>>,
    time_limits: Rc<RefCell<BTreeMap<Tid, Option<u64>>>>,
}

impl TaskLauncher for FakeLauncher {
    fn build_task(
        &self,
        ctx: TaskBuildContext,
        stop_receiver: oneshot::Receiver<StopReason>,
    ) -> tako::Result<TaskLaunchData> {
        let t = conv::tid(ctx.task_id());
        let instance = ctx.instance_id().as_num();
        if self.arm_fail.get() && !self.inert.get() {
            self.arm_fail.set(false);
            push(
                &self.shared,
                Obs::LaunchFail {
                    w: self.w,
                    t,
                    instance,
                },
            );
            return Err(tako::Error::GenericError("hqv: launch failure".into()));
        }
        let a = AllocationSnapshot::from_allocation(ctx.allocation());
        let alloc = AllocLite {
            resources: a.resources,
        };
        let nodes: Vec<Wid> = ctx.node_list().iter().map(|w| w.as_num()).collect();
        let rv = ctx.resource_variant().as_num() as u32;
        let (finish_tx, finish_rx) = oneshot::channel::<FinishCmd>();
        let inert = self.inert.clone();
        let exec = {
            let mut s = self.shared.borrow_mut();
            let exec = s.execs.len();
            let step = s.step;
            let start_s = s.vnow_s;
            let incarnation = s.incarnation;
            let time_limit_s = self.time_limits.borrow().get(&t).copied().flatten();
            s.execs.push(ExecRec {
                w: self.w,
                t,
                instance,
                rv,
                alloc: alloc.clone(),
                nodes: nodes.clone(),
                open: !inert.get(),
                stopped: None,
                finish_tx: Some(finish_tx),
                start_step: step,
                start_s,
                time_limit_s,
                incarnation,
            });
            if !inert.get() {
                s.log.push((
                    step,
                    Obs::ExecStart {
                        exec,
                        w: self.w,
                        t,
                        instance,
                        rv,
                        alloc,
                        nodes,
                    },
                ));
            }
            exec
        };
        let shared = self.shared.clone();
        let arm_slow_stop = self.arm_slow_stop.clone();
        let context: SerializedTaskContext = tako::comm::serialize(&RunningTaskContext {
            instance_id: ctx.instance_id(),
        })
        .unwrap();
        let fut = async move {
            let end = |how: EndHow| {
                let mut s = shared.borrow_mut();
                if s.execs[exec].open {
                    s.execs[exec].open = false;
                    let step = s.step;
                    s.log.push((step, Obs::ExecEnd { exec, how }));
                }
            };
            // Both receivers stay alive as long as the future is pending (launcher contract).
            let mut finish_rx = finish_rx;
            let mut stop_rx = stop_receiver;
            let r = futures::future::select(&mut finish_rx, &mut stop_rx).await;
            if inert.get() {
                // the worker process is gone: nothing of this execution is observable any more
                return futures::future::pending().await;
            }
            match r {
                futures::future::Either::Left((r, _)) => match r {
                    Ok(FinishCmd::Ok) => {
                        end(EndHow::Finished);
                        Ok(TaskResult::Finished)
                    }
                    Ok(FinishCmd::Fail(msg)) => {
                        end(EndHow::Failed);
                        Err(tako::Error::GenericError(msg))
                    }
                    Err(_) => futures::future::pending().await,
                },
                futures::future::Either::Right((s, _)) => match s {
                    Ok(reason) => {
                        let timeout = matches!(reason, StopReason::Timeout);
                        {
                            let mut sh = shared.borrow_mut();
                            sh.execs[exec].stopped = Some(timeout);
                            let step = sh.step;
                            sh.log.push((step, Obs::ExecStop { exec, timeout }));
                        }
                        if arm_slow_stop.get() > 0 {
                            // the process got the signal but is still there until the harness
                            // lets it end (Action::Finish on this execution)
                            arm_slow_stop.set(arm_slow_stop.get() - 1);
                            let _ = (&mut finish_rx).await;
                            if inert.get() {
                                return futures::future::pending().await;
                            }
                        }
                        if timeout {
                            end(EndHow::Timeouted);
                            Ok(TaskResult::Timeouted)
                        } else {
                            end(EndHow::Canceled);
                            Ok(TaskResult::Canceled)
                        }
                    }
                    Err(_) => futures::future::pending().await,
                },
            }
        };
        Ok(TaskLaunchData::new(Box::pin(fut), context))
    }
}

/* ------------------------------------------------------------------------------------------- */
/* recording event processor                                                                   */
/* ------------------------------------------------------------------------------------------- */

struct RecordingProcessor {
    inner: Box<dyn EventProcessor>,
    shared: Shared,
}

impl EventProcessor for RecordingProcessor {
    fn on_task_finished(&mut self, task_id: TaskId) {
        push(
            &self.shared,
            Obs::CbFinished {
                t: conv::tid(task_id),
            },
        );
        self.inner.on_task_finished(task_id)
    }

    fn on_task_started(
        &mut self,
        task_id: TaskId,
        instance_id: InstanceId,
        worker_ids: &[WorkerId],
        rv_id: ResourceVariantId,
        context: SerializedTaskContext,
    ) {
        push(
            &self.shared,
            Obs::CbStarted {
                t: conv::tid(task_id),
                instance: instance_id.as_num(),
                workers: worker_ids.iter().map(|w| w.as_num()).collect(),
                rv: rv_id.as_num() as u32,
            },
        );
        self.inner
            .on_task_started(task_id, instance_id, worker_ids, rv_id, context)
    }

    fn on_task_error(
        &mut self,
        task_id: TaskId,
        consumers_id: Vec<TaskId>,
        error_info: TaskFailInfo,
    ) -> Vec<TaskId> {
        let consumers: Vec<Tid> = consumers_id.iter().map(|t| conv::tid(*t)).collect();
        let msg = error_info.message.clone();
        let r = self.inner.on_task_error(task_id, consumers_id, error_info);
        push(
            &self.shared,
            Obs::CbError {
                t: conv::tid(task_id),
                consumers,
                msg,
                cancel: r.iter().map(|t| conv::tid(*t)).collect(),
            },
        );
        r
    }

    fn on_worker_new(&mut self, worker_id: WorkerId, configuration: &WorkerConfiguration) {
        push(
            &self.shared,
            Obs::CbWorkerNew {
                w: worker_id.as_num(),
            },
        );
        self.inner.on_worker_new(worker_id, configuration)
    }

    fn on_worker_lost(
        &mut self,
        worker_id: WorkerId,
        running_tasks: &[TaskId],
        reason: LostWorkerReason,
    ) {
        push(
            &self.shared,
            Obs::CbWorkerLost {
                w: worker_id.as_num(),
                running: running_tasks.iter().map(|t| conv::tid(*t)).collect(),
                reason: conv::reason_from(reason),
            },
        );
        self.inner.on_worker_lost(worker_id, running_tasks, reason)
    }

    fn on_worker_overview(&mut self, overview: Box<WorkerOverview>) {
        self.inner.on_worker_overview(overview)
    }

    fn on_task_notify(&mut self, task_id: TaskId, worker_id: WorkerId, message: Box<[u8]>) {
        self.inner.on_task_notify(task_id, worker_id, message)
    }
}

/* ------------------------------------------------------------------------------------------- */
/* feed stream for the real server-side receive loop                                           */
/* ------------------------------------------------------------------------------------------- */

#[derive(Default)]
struct FeedInner {
    queue: VecDeque<BytesMut>,
    waker: Option<Waker>,
    parked: bool,
    closed: bool,
}

#[derive(Clone, Default)]
pub struct Feed(Rc<RefCell<FeedInner>>);

impl Feed {
    fn push(&self, data: &[u8]) {
        let mut f = self.0.borrow_mut();
        f.queue.push_back(BytesMut::from(data));
        f.parked = false;
        if let Some(w) = f.waker.take() {
            w.wake();
        }
    }
    fn close(&self) {
        let mut f = self.0.borrow_mut();
        f.closed = true;
        f.parked = false;
        if let Some(w) = f.waker.take() {
            w.wake();
        }
    }
    fn settled(&self) -> bool {
        let f = self.0.borrow();
        f.queue.is_empty() && (f.parked || f.closed)
    }
}

struct FeedStream(Feed);

impl Stream for FeedStream {
    type Item = Result<BytesMut, std::io::Error>;
    fn poll_next(self: Pin<&mut Self>, cx: &mut Context<'_>) -> Poll<Option<Self::Item>> {
        let mut f = self.0.0.borrow_mut();
        if let Some(item) = f.queue.pop_front() {
            Poll::Ready(Some(Ok(item)))
        } else if f.closed {
            Poll::Ready(None)
        } else {
            f.waker = Some(cx.waker().clone());
            f.parked = true;
            Poll::Pending
        }
    }
}

/* ------------------------------------------------------------------------------------------- */
/* handles                                                                                     */
/* ------------------------------------------------------------------------------------------- */

pub struct WorkerHandle {
    pub id: Wid,
    pub spec: WorkerSpec,
    pub sim: SimWorker,
    from_server_rx: UnboundedReceiver<Bytes>,
    pub to_worker: VecDeque<Bytes>,
    from_worker_rx: UnboundedReceiver<Bytes>,
    pub to_server: VecDeque<Bytes>,
    feed: Feed,
    recv_loop: JoinHandle<bool>,
    retract_check: JoinHandle<()>,
    pub connected_at_s: u64,
    /// the worker processed `Stop` and left its message loop
    pub stopped: bool,
    /// nothing is delivered on this worker's link any more (see `Action::Partition`)
    pub partitioned: bool,
    arm_fail: Rc<Cell<bool>>,
    arm_slow_stop: Rc<Cell<u32>>,
    inert: Rc<Cell<bool>>,
    pub time_limits: Rc<RefCell<BTreeMap<Tid, Option<u64>>>>,
}

#[derive(Debug, Clone, PartialEq, Eq)]
pub enum ClientState {
    Idle,
    Waiting,
    Streaming,
    Closed,
}

pub struct ClientHandle {
    req_tx: fmpsc::UnboundedSender<tako::Result<FromClientMessage>>,
    resp_rx: fmpsc::UnboundedReceiver<ToClientMessage>,
    _task: JoinHandle<()>,
    pub state: ClientState,
    pub pending: Option<ClientReq>,
    pub pending_since: u32,
    /// for Streaming clients: the job they wait for and whether JobCompleted was received
    pub stream_job: Option<Jid>,
    pub stream_completed: bool,
    /// the client closed its connection before its job's completion report arrived
    pub left_early: bool,
    pub incarnation: u32,
}

pub struct Incarnation {
    pub server: SimServer,
    pub state_ref: StateRef,
    pub senders: Senders,
    ev_rx: UnboundedReceiver<EventStreamMessage>,
    live_rx: UnboundedReceiver<Event>,
    _autoalloc: Pin<Box<dyn std::future::Future<Output = ()>>>,
}

#[derive(Clone, Debug)]
pub struct SimConfig {
    pub prefill_reserve: u32,
    pub prefill_max: u32,
    pub journal_dir: PathBuf,
    /// Some(work dir): workers run tasks with the real `HqTaskLauncher` (real processes)
    pub real_launcher: Option<PathBuf>,
}

pub struct Sim {
    pub cfg: SimConfig,
    pub shared: Shared,
    pub inc: Incarnation,
    pub workers: BTreeMap<Wid, WorkerHandle>,
    pub clients: Vec<ClientHandle>,
    /// all persisted events of the journal as it would be on disk (after truncations)
    pub journal: Vec<Event>,
    pub durable_len: usize,
    pub pending_flushes: VecDeque<oneshot::Sender<()>>,
    pub pending_prunes: VecDeque<(oneshot::Sender<()>, Set<tako::JobId>, Set<WorkerId>)>,
    pub base: Instant,
    pub worker_serial: u32,
    pub server_dir: ServerDir,
    pub server_uid: String,
    pub n_restarts: u32,
    /// set when something made the run unusable (harness-side problem)
    pub broken: Option<String>,
    pub in_restore: bool,
    /// (journal length, live job ids, live worker ids) of every prune request
    pub prune_points: Vec<(usize, Vec<u32>, Vec<u32>)>,
    pub restore_error: Option<String>,
    pub restored_uid: Option<String>,
    pub restored_submits: Vec<RestoredTask>,
}

fn make_server_dir(dir: &std::path::Path) -> ServerDir {
    let record = FullAccessRecord::new(
        ConnectAccessRecordPart {
            host: "localhost".into(),
            port: 1,
            secret_key: None,
        },
        ConnectAccessRecordPart {
            host: "localhost".into(),
            port: 2,
            secret_key: None,
        },
        "hqvsrv".into(),
    );
    ServerDir::create(dir, &record).expect("cannot create server dir")
}

fn make_incarnation(
    shared: &Shared,
    cfg: &SimConfig,
    server_uid: &str,
    worker_id_initial: WorkerId,
    queue_id_initial: u32,
) -> Incarnation {
    let server = SimServer::new(
        server_uid.to_string(),
        worker_id_initial,
        SchedulerConfig {
            proactive_filling_reserve: cfg.prefill_reserve,
            proactive_filling_max: cfg.prefill_max,
            mip_time_limit: Duration::from_secs(20),
        },
        None,
    );
    let state_ref = StateRef::new(ServerInfo {
        server_uid: server_uid.to_string(),
        client_host: "localhost".into(),
        worker_host: "localhost".into(),
        client_port: 1,
        worker_port: 2,
        version: "hqv".into(),
        pid: 0,
        start_date: chrono::Utc::now(),
        journal_path: None,
    });
    let (ev_tx, ev_rx) = tokio::sync::mpsc::unbounded_channel::<EventStreamMessage>();
    let events = EventStreamer::new(Some(ev_tx));
    let (live_tx, live_rx) = tokio::sync::mpsc::unbounded_channel::<Event>();
    events.register_listener(
        EventFilter::new(None, EventFilterFlags::all()),
        live_tx,
    );
    let server_ref = server.server_ref();
    let (autoalloc, autoalloc_process) =
        create_autoalloc_service(server_ref.clone(), queue_id_initial, events.clone());
    let senders = Senders {
        server_control: server_ref.clone(),
        events: events.clone(),
        autoalloc,
    };
    let inner = hyperqueue::server::verif::make_event_processor(state_ref.clone(), senders.clone());
    server_ref.set_client_events(Box::new(RecordingProcessor {
        inner,
        shared: shared.clone(),
    }));
    Incarnation {
        server,
        state_ref,
        senders,
        ev_rx,
        live_rx,
        _autoalloc: Box::pin(autoalloc_process),
    }
}

impl Sim {
    pub fn new(cfg: SimConfig) -> Sim {
        let shared: Shared = Rc::new(RefCell::new(SharedInner {
            step: 0,
            log: Vec::new(),
            execs: Vec::new(),
            vnow_s: 0,
            incarnation: 0,
        }));
        let server_uid = "hqvuid".to_string();
        let inc = make_incarnation(&shared, &cfg, &server_uid, WorkerId::new(0), 1);
        inc.senders.events.on_server_start(&server_uid);
        let sd = cfg.journal_dir.join("serverdir");
        let server_dir = make_server_dir(&sd);
        let mut sim = Sim {
            cfg,
            shared,
            inc,
            workers: BTreeMap::new(),
            clients: Vec::new(),
            journal: Vec::new(),
            durable_len: 0,
            pending_flushes: VecDeque::new(),
            pending_prunes: VecDeque::new(),
            base: Instant::now(),
            worker_serial: 0,
            server_dir,
            server_uid,
            n_restarts: 0,
            broken: None,
            in_restore: false,
            prune_points: Vec::new(),
            restore_error: None,
            restored_uid: None,
            restored_submits: Vec::new(),
        };
        sim.pump();
        sim
    }

    pub fn vnow_s(&self) -> u64 {
        self.shared.borrow().vnow_s
    }

    pub fn now(&self) -> Instant {
        self.base + Duration::from_secs(self.vnow_s())
    }

    pub fn obs(&self, o: Obs) {
        push(&self.shared, o);
    }

    pub fn log_len(&self) -> usize {
        self.shared.borrow().log.len()
    }

    /* ------------------------------ pumping channels --------------------------------------- */

    /// Moves everything that the real code has put into harness-owned channels into the harness'
    /// FIFOs, recording it.
    pub fn pump(&mut self) {
        // server -> worker, worker -> server
        for (wid, w) in self.workers.iter_mut() {
            while let Ok(data) = w.from_server_rx.try_recv() {
                if let Ok(m) = tako::comm::deserialize::<ToWorkerMessage>(&data) {
                    push(
                        &self.shared,
                        Obs::SrvSent {
                            w: *wid,
                            m: conv::to_worker_lite(&m),
                        },
                    );
                }
                w.to_worker.push_back(data);
            }
            while let Ok(data) = w.from_worker_rx.try_recv() {
                if w.inert.get() {
                    continue;
                }
                if let Ok(m) = tako::comm::deserialize::<FromWorkerMessage>(&data) {
                    push(
                        &self.shared,
                        Obs::WorkerSent {
                            w: *wid,
                            m: conv::from_worker_lite(&m),
                        },
                    );
                }
                w.to_server.push_back(data);
            }
        }
        // journal channel
        while let Ok(msg) = self.inc.ev_rx.try_recv() {
            match msg {
                EventStreamMessage::Event(e) => {
                    push(&self.shared, Obs::Journal(conv::ev(&e.payload)));
                    self.journal.push(e);
                }
                EventStreamMessage::FlushJournal(cb) => self.pending_flushes.push_back(cb),
                EventStreamMessage::PruneJournal {
                    callback,
                    live_jobs,
                    live_workers,
                } => {
                    let mut lj: Vec<u32> = live_jobs.iter().map(|j| j.as_num()).collect();
                    lj.sort_unstable();
                    let mut lw: Vec<u32> = live_workers.iter().map(|w| w.as_num()).collect();
                    lw.sort_unstable();
                    self.prune_points.push((self.journal.len(), lj, lw));
                    self.pending_prunes
                        .push_back((callback, live_jobs, live_workers))
                }
                EventStreamMessage::ReplayJournal(tx) => {
                    for e in &self.journal {
                        let _ = tx.send(e.clone());
                    }
                }
            }
        }
        while let Ok(e) = self.inc.live_rx.try_recv() {
            push(&self.shared, Obs::Live(conv::ev(&e.payload)));
        }
        // clients
        let inc_no = self.shared.borrow().incarnation;
        for (c, client) in self.clients.iter_mut().enumerate() {
            if client.state == ClientState::Closed || client.incarnation != inc_no {
                continue;
            }
            loop {
                match client.resp_rx.try_next() {
                    Ok(Some(m)) => {
                        let r = conv::resp_lite(&m);
                        match (&client.state, &r) {
                            (ClientState::Streaming, RespLite::Event(Ev::JobCompleted(j))) => {
                                if Some(*j) == client.stream_job {
                                    client.stream_completed = true;
                                    // `hq submit --wait` returns now and drops its connection
                                    client.req_tx.close_channel();
                                }
                            }
                            (ClientState::Waiting, _) => {
                                let was_stream = matches!(
                                    client.pending,
                                    Some(ClientReq::Submit { stream: true, .. })
                                );
                                client.pending = None;
                                if was_stream {
                                    if let RespLite::SubmitOk { job, .. } = &r {
                                        client.state = ClientState::Streaming;
                                        client.stream_job = Some(*job);
                                    } else {
                                        client.state = ClientState::Idle;
                                    }
                                } else {
                                    client.state = ClientState::Idle;
                                }
                            }
                            _ => {}
                        }
                        push(&self.shared, Obs::Resp { c, r });
                    }
                    Ok(None) => {
                        client.state = ClientState::Closed;
                        break;
                    }
                    Err(_) => break,
                }
            }
        }
    }

    fn feeds_settled(&self) -> bool {
        self.workers.values().all(|w| w.feed.settled())
    }

    /// Lets all spawned local tasks run until nothing moves any more.
    pub async fn settle(&mut self) {
        let mut quiet = 0;
        let mut rounds = 0;
        loop {
            let before = self.log_len();
            tokio::task::yield_now().await;
            self.pump();
            rounds += 1;
            let moved = self.log_len() != before || !self.feeds_settled();
            if moved {
                quiet = 0;
            } else {
                quiet += 1;
            }
            if quiet >= 3 {
                break;
            }
            if rounds > 400 {
                self.broken = Some("settle did not converge".into());
                break;
            }
        }
    }

    /* ------------------------------ actions ------------------------------------------------ */

    pub fn connect_worker(&mut self, spec: &WorkerSpec) -> Wid {
        self.worker_serial += 1;
        let mut configuration = conv::worker_configuration(spec, self.worker_serial);
        if let Some(dir) = &self.cfg.real_launcher {
            configuration.work_dir = dir.clone();
        }
        let real_launcher = self.cfg.real_launcher.is_some();
        let server_uid = self.server_uid.clone();
        let now = self.now();
        let (worker_id, mut from_server_rx) =
            self.inc.server.connect_worker(configuration.clone(), now);
        let wid = worker_id.as_num();
        let registration = from_server_rx
            .try_recv()
            .expect("registration response must be queued first");
        let arm_fail = Rc::new(Cell::new(false));
        let arm_slow_stop = Rc::new(Cell::new(0u32));
        let s2 = arm_slow_stop.clone();
        let inert = Rc::new(Cell::new(false));
        let time_limits = Rc::new(RefCell::new(BTreeMap::new()));
        let shared = self.shared.clone();
        let (a2, i2, t2) = (arm_fail.clone(), inert.clone(), time_limits.clone());
        let (sim, from_worker_rx) = SimWorker::new(&registration, configuration, move |_, id| {
            if real_launcher {
                return Box::new(hyperqueue::worker::start::HqTaskLauncher::new(hyperqueue::worker::streamer::StreamerRef::new(&server_uid, id)));
            }
            Box::new(FakeLauncher {
                shared,
                w: id.as_num(),
                arm_fail: a2,
                arm_slow_stop: s2,
                inert: i2,
                time_limits: t2,
            })
        })
        .expect("worker registration");
        let feed = Feed::default();
        let recv_loop = self
            .inc
            .server
            .spawn_receive_loop(worker_id, FeedStream(feed.clone()));
        let retract_check = sim.spawn_retract_check(Duration::from_secs(5));
        let at_s = self.vnow_s();
        self.obs(Obs::Connected {
            w: wid,
            spec: spec.clone(),
            at_s,
        });
        self.workers.insert(
            wid,
            WorkerHandle {
                id: wid,
                spec: spec.clone(),
                sim,
                from_server_rx,
                to_worker: VecDeque::new(),
                from_worker_rx,
                to_server: VecDeque::new(),
                feed,
                recv_loop,
                retract_check,
                connected_at_s: at_s,
                stopped: false,
                partitioned: false,
                arm_fail,
                arm_slow_stop,
                inert,
                time_limits,
            },
        );
        wid
    }

    /// Ends every open execution of the worker (the worker process is gone).
    fn worker_gone(&mut self, w: &WorkerHandle) {
        w.inert.set(true);
        w.retract_check.abort();
        let mut s = self.shared.borrow_mut();
        let step = s.step;
        let mut ended = Vec::new();
        for (i, e) in s.execs.iter_mut().enumerate() {
            if e.w == w.id && e.open {
                e.open = false;
                e.finish_tx = None;
                ended.push(i);
            }
        }
        for exec in ended {
            s.log.push((
                step,
                Obs::ExecEnd {
                    exec,
                    how: EndHow::WorkerGone,
                },
            ));
        }
    }

    /// Abrupt loss of a worker: both in-flight queues are dropped.
    pub fn kill_worker(&mut self, wid: Wid, reason: Reason) {
        let Some(w) = self.workers.remove(&wid) else {
            return;
        };
        self.worker_gone(&w);
        w.recv_loop.abort();
        self.obs(Obs::WorkerRemoved { w: wid, reason });
        self.inc
            .server
            .disconnect_worker(WorkerId::new(wid), conv::reason_to(reason));
        drop(w);
    }

    pub fn deliver_to_worker(&mut self, wid: Wid) {
        let Some(w) = self.workers.get_mut(&wid) else {
            return;
        };
        if w.stopped || w.partitioned {
            return;
        }
        let Some(data) = w.to_worker.pop_front() else {
            return;
        };
        if let Ok(m) = tako::comm::deserialize::<ToWorkerMessage>(&data) {
            // remember the time limits the server announced for tasks (used by the C01 oracle)
            if let ToWorkerMessage::ComputeTasks(msg) = &m {
                for t in &msg.tasks {
                    let tl = msg.shared_data[t.shared_index]
                        .time_limit
                        .map(|d| d.as_secs());
                    w.time_limits.borrow_mut().insert(conv::tid(t.id), tl);
                }
            }
            push(
                &self.shared,
                Obs::WorkerGot {
                    w: wid,
                    m: conv::to_worker_lite(&m),
                },
            );
        }
        let stop = w.sim.deliver(&data).unwrap_or(false);
        if stop {
            w.stopped = true;
            let w = self.workers.remove(&wid).unwrap();
            // a stopping worker cancels its running tasks and exits; nothing more is sent
            self.worker_gone(&w);
            w.inert.set(true);
            self.workers.insert(wid, w);
        }
    }

    pub fn deliver_to_server(&mut self, wid: Wid) {
        let Some(w) = self.workers.get_mut(&wid) else {
            return;
        };
        if w.partitioned {
            return;
        }
        let Some(data) = w.to_server.pop_front() else {
            return;
        };
        if let Ok(m) = tako::comm::deserialize::<FromWorkerMessage>(&data) {
            push(
                &self.shared,
                Obs::SrvGot {
                    w: wid,
                    m: conv::from_worker_lite(&m),
                },
            );
        }
        w.feed.push(&data);
    }

    /// The connection of a worker that has stopped is closed (EOF after its last message).
    pub fn close_link(&mut self, wid: Wid) {
        let ok = self
            .workers
            .get(&wid)
            .map(|w| w.stopped && w.to_server.is_empty())
            .unwrap_or(false);
        if !ok {
            return;
        }
        let w = self.workers.remove(&wid).unwrap();
        w.feed.close();
        w.recv_loop.abort();
        let reason = self
            .inc
            .server
            .worker_stop_reason(WorkerId::new(wid))
            .map(conv::reason_from)
            .unwrap_or(Reason::ConnectionLost);
        self.obs(Obs::WorkerRemoved { w: wid, reason });
        self.inc
            .server
            .disconnect_worker(WorkerId::new(wid), LostWorkerReason::ConnectionLost);
    }

    pub fn sched(&mut self) {
        if !self.inc.server.need_scheduling() {
            return;
        }
        let now = self.now();
        let result = self.inc.server.run_scheduling(now);
        let at_s = self.vnow_s();
        self.obs(Obs::Sched { at_s, result });
    }

    pub fn finish_exec(&mut self, exec: usize, ok: bool) {
        let tx = {
            let mut s = self.shared.borrow_mut();
            match s.execs.get_mut(exec) {
                Some(e) if e.open => e.finish_tx.take(),
                _ => None,
            }
        };
        if let Some(tx) = tx {
            let _ = tx.send(if ok {
                FinishCmd::Ok
            } else {
                FinishCmd::Fail("hqv: task failed".into())
            });
        }
    }

    pub async fn advance(&mut self, secs: u64) {
        // workers whose lifetime would end are removed first (they leave their loop at the limit)
        let vnow = self.vnow_s();
        let expiring: Vec<Wid> = self
            .workers
            .values()
            // a partitioned worker ends as well, but the server cannot know: it stays registered
            .filter(|w| !w.partitioned)
            .filter(|w| {
                w.spec
                    .time_limit_s
                    .map(|l| w.connected_at_s + l <= vnow + secs)
                    .unwrap_or(false)
            })
            .map(|w| w.id)
            .collect();
        for wid in expiring {
            self.kill_worker(wid, Reason::TimeLimitReached);
        }
        self.shared.borrow_mut().vnow_s += secs;
        for w in self.workers.values() {
            w.sim.shift_start_time(Duration::from_secs(secs));
        }
        tokio::time::advance(Duration::from_secs(secs)).await;
    }

    pub fn partition(&mut self, wid: Wid) {
        if let Some(w) = self.workers.get_mut(&wid) {
            if !w.stopped {
                w.partitioned = true;
            }
        }
    }

    pub fn arm_slow_stop(&mut self, wid: Wid) {
        if let Some(w) = self.workers.get(&wid) {
            // the next few executions told to stop on this worker die slowly
            w.arm_slow_stop.set(4);
        }
    }

    pub fn arm_launch_fail(&mut self, wid: Wid) {
        if let Some(w) = self.workers.get(&wid) {
            w.arm_fail.set(true);
        }
    }

    fn new_client(&mut self) -> usize {
        let (req_tx, req_rx) = fmpsc::unbounded::<tako::Result<FromClientMessage>>();
        let (resp_tx, resp_rx) = fmpsc::unbounded::<ToClientMessage>();
        let state_ref = self.inc.state_ref.clone();
        let senders = self.inc.senders.clone();
        let server_dir = self.server_dir.clone();
        let task = tokio::task::spawn_local(async move {
            let tx = resp_tx.sink_map_err(|e| tako::Error::GenericError(e.to_string()));
            client_rpc_loop(
                tx,
                req_rx,
                server_dir,
                state_ref,
                &senders,
                Arc::new(Notify::new()),
            )
            .await;
        });
        let incarnation = self.shared.borrow().incarnation;
        self.clients.push(ClientHandle {
            req_tx,
            resp_rx,
            _task: task,
            state: ClientState::Idle,
            pending: None,
            pending_since: 0,
            stream_job: None,
            stream_completed: false,
            left_early: false,
            incarnation,
        });
        self.clients.len() - 1
    }

    /// Index of an idle client of the current incarnation (creating one if necessary).
    pub fn idle_client(&mut self) -> usize {
        let inc_no = self.shared.borrow().incarnation;
        if let Some(i) = self
            .clients
            .iter()
            .position(|c| c.state == ClientState::Idle && c.incarnation == inc_no)
        {
            return i;
        }
        self.new_client()
    }

    pub fn client_request(&mut self, client: usize, req: &ClientReq) {
        while self.clients.len() <= client {
            self.new_client();
        }
        let inc_no = self.shared.borrow().incarnation;
        if self.clients[client].state != ClientState::Idle
            || self.clients[client].incarnation != inc_no
        {
            return;
        }
        let sel = |j: Jid| IdSelector::Specific(conv::int_array(&[j]));
        let msg = match req {
            ClientReq::Submit {
                job,
                max_fails,
                spec,
                stream,
            } => FromClientMessage::Submit(
                conv::submit_request(*job, *max_fails, spec),
                stream.then(|| StreamEvents {
                    mode: StreamEventsMode::LiveEvents,
                    enable_worker_overviews: false,
                    filter: EventFilter::new(None, EventFilterFlags::JOB_EVENTS),
                }),
            ),
            ClientReq::Open { max_fails } => {
                FromClientMessage::OpenJob(hyperqueue::transfer::messages::JobDescription {
                    name: "open".into(),
                    max_fails: *max_fails,
                })
            }
            ClientReq::Close { job } => {
                FromClientMessage::CloseJob(CloseJobRequest { selector: sel(*job) })
            }
            ClientReq::Cancel { job } => FromClientMessage::Cancel(CancelRequest {
                selector: sel(*job),
                reason: Some("hqv".into()),
            }),
            ClientReq::Forget { job } => FromClientMessage::ForgetJob(ForgetJobRequest {
                selector: sel(*job),
                filter: vec![
                    hyperqueue::client::status::Status::Finished,
                    hyperqueue::client::status::Status::Failed,
                    hyperqueue::client::status::Status::Canceled,
                ],
            }),
            ClientReq::Info => FromClientMessage::JobInfo(
                JobInfoRequest {
                    selector: IdSelector::All,
                    include_running_tasks: true,
                },
                None,
            ),
            ClientReq::Detail { job } => FromClientMessage::JobDetail(JobDetailRequest {
                job_id_selector: sel(*job),
                task_selector: Some(TaskSelector {
                    id_selector: TaskIdSelector::All,
                    status_selector: TaskStatusSelector::All,
                }),
            }),
            ClientReq::StopWorker { w } => FromClientMessage::StopWorker(StopWorkerMessage {
                selector: sel(*w),
            }),
            ClientReq::Prune => FromClientMessage::PruneJournal,
            ClientReq::Flush => FromClientMessage::FlushJournal,
        };
        self.obs(Obs::Req {
            c: client,
            r: req.clone(),
        });
        let step = self.shared.borrow().step;
        let c = &mut self.clients[client];
        c.state = ClientState::Waiting;
        c.pending = Some(req.clone());
        c.pending_since = step;
        let _ = c.req_tx.unbounded_send(Ok(msg));
    }

    /// A waiting client goes away (see `Action::HangUp`).
    pub fn hang_up(&mut self, client: usize) {
        if let Some(c) = self.clients.get_mut(client) {
            if c.state == ClientState::Streaming && !c.stream_completed {
                c.left_early = true;
                c.req_tx.close_channel();
            }
        }
    }

    /// Sends a message built by the caller (used by the launcher lab for submits with programs).
    pub fn client_raw(&mut self, client: usize, msg: FromClientMessage) {
        while self.clients.len() <= client {
            self.new_client();
        }
        let step = self.shared.borrow().step;
        let c = &mut self.clients[client];
        c.state = ClientState::Waiting;
        c.pending = None;
        c.pending_since = step;
        let _ = c.req_tx.unbounded_send(Ok(msg));
    }

    pub fn answer_flush(&mut self) {
        if let Some(cb) = self.pending_flushes.pop_front() {
            self.durable_len = self.journal.len();
            self.obs(Obs::FlushAnswered);
            let _ = cb.send(());
        }
    }

    /// Prune as the journal thread does it, but on the in-memory journal: the E4 lab checks the
    /// real `prune_journal`; inside E1 the journal simply keeps everything (a prune does not
    /// change what E1 observes) and the callback is answered.
    pub fn answer_prune(&mut self) {
        if let Some((cb, _jobs, _workers)) = self.pending_prunes.pop_front() {
            self.durable_len = self.journal.len();
            let _ = cb.send(());
        }
    }

    /// Some clients wait for something that needs real time (`spawn_blocking` in forget).
    pub async fn wait_blocking_clients(&mut self) {
        let start = Instant::now();
        loop {
            let waiting = self.clients.iter().any(|c| {
                c.state == ClientState::Waiting
                    && matches!(c.pending, Some(ClientReq::Forget { .. }))
            });
            if !waiting || self.broken.is_some() {
                return;
            }
            if start.elapsed() > Duration::from_secs(5) {
                self.broken = Some("forget response did not arrive".into());
                return;
            }
            std::thread::sleep(Duration::from_micros(100));
            tokio::task::yield_now().await;
            self.pump();
        }
    }

    /* ------------------------------ snapshots ---------------------------------------------- */

    pub fn core_snapshot(&self) -> CoreSnapshot {
        self.inc.server.snapshot()
    }

    pub fn worker_snapshot(&self, wid: Wid) -> Option<WorkerStateSnapshot> {
        self.workers.get(&wid).map(|w| w.sim.snapshot())
    }

    pub fn jobs(&self) -> Vec<JobLite> {
        let state = self.inc.state_ref.get();
        let mut jobs: Vec<JobLite> = state
            .jobs()
            .map(|job| {
                let mut tasks: Vec<(u32, TaskStateLite)> = job
                    .iter_task_states()
                    .map(|(id, st)| (id.as_num(), conv::task_state_lite(st)))
                    .collect();
                tasks.sort_by_key(|t| t.0);
                JobLite {
                    id: job.job_id.as_num(),
                    n_tasks: job.n_tasks(),
                    counters: conv::counters_lite(&job.counters),
                    is_open: job.is_open(),
                    max_fails: job.job_desc.max_fails,
                    tasks,
                    completed: job.completion_date.is_some(),
                    // (job_status asserts on inconsistent counters: that is B1's business, not a crash)
                    status: std::panic::catch_unwind(std::panic::AssertUnwindSafe(|| format!("{:?}", hyperqueue::client::status::job_status(&job.make_job_info(false))))).unwrap_or_else(|_| {
                        let _ = crate::panics::take();
                        "panic".to_string()
                    }),
                }
            })
            .collect();
        jobs.sort_by_key(|j| j.id);
        jobs
    }

    pub fn open_execs(&self) -> Vec<usize> {
        self.shared
            .borrow()
            .execs
            .iter()
            .enumerate()
            .filter(|(_, e)| e.open)
            .map(|(i, _)| i)
            .collect()
    }

    pub fn messages_in_flight(&self) -> usize {
        self.workers
            .values()
            .map(|w| {
                (if w.stopped { 0 } else { w.to_worker.len() }) + w.to_server.len()
            })
            .sum()
    }

    /* ------------------------------ crash / restart ---------------------------------------- */

    /// Writes the first `keep` journal records with the real `JournalWriter`.
    pub fn write_journal_prefix(&self, keep: usize, path: &std::path::Path) -> anyhow::Result<()> {
        use hyperqueue::server::event::journal::JournalWriter;
        let _ = std::fs::remove_file(path);
        let mut writer = JournalWriter::create(path)?;
        for e in &self.journal[..keep.min(self.journal.len())] {
            writer.store(e.clone())?;
        }
        writer.finish()?;
        Ok(())
    }

    /// The server process dies; a new one is started from the first `keep` journal records.
    /// Every worker is gone (`ServerLostPolicy::Stop`), every client connection is closed.
    pub async fn crash_and_restart(&mut self, keep: usize) {
        let keep = keep.min(self.journal.len());
        let total = self.journal.len();
        let wids: Vec<Wid> = self.workers.keys().copied().collect();
        for wid in wids {
            let w = self.workers.remove(&wid).unwrap();
            self.worker_gone(&w);
            w.recv_loop.abort();
        }
        for c in self.clients.iter_mut() {
            c._task.abort();
            c.state = ClientState::Closed;
        }
        self.pending_flushes.clear();
        self.pending_prunes.clear();
        self.n_restarts += 1;
        let path = self
            .cfg
            .journal_dir
            .join(format!("restart-{}.journal", self.n_restarts));
        if let Err(e) = self.write_journal_prefix(keep, &path) {
            self.broken = Some(format!("cannot write journal: {e:?}"));
            return;
        }
        self.journal.truncate(keep);
        self.durable_len = keep;
        self.obs(Obs::Restart { keep, total });
        self.in_restore = true;
        let loaded = match hyperqueue::server::verif::load_journal(&path) {
            Ok(l) => l,
            Err(e) => {
                self.restore_error = Some(format!("load: {e:?}"));
                return;
            }
        };
        let uid = if loaded.server_uid().is_empty() {
            self.server_uid.clone()
        } else {
            loaded.server_uid().to_string()
        };
        self.shared.borrow_mut().incarnation += 1;
        let inc = make_incarnation(
            &self.shared,
            &self.cfg,
            &uid,
            loaded.worker_id_counter(),
            loaded.queue_id_counter(),
        );
        let out = match loaded.restore(&inc.state_ref, &inc.server.server_ref()) {
            Ok(o) => o,
            Err(e) => {
                self.restore_error = Some(format!("restore: {e:?}"));
                return;
            }
        };
        inc.senders.events.on_server_start(&uid);
        self.restored_uid = Some(uid);
        self.inc = inc;
        self.restored_submits = out
            .task_submits
            .iter()
            .map(|ts| {
                ts.tasks
                    .iter()
                    .map(|t| {
                        let adj = ts.adjust_instance_id_and_crash_counters.get(&t.id);
                        RestoredTask {
                            t: conv::tid(t.id),
                            deps: t.task_deps.iter().map(|d| conv::tid(*d)).collect(),
                            instance: adj.map(|a| a.0.as_num()).unwrap_or(0),
                            crash_counter: adj.map(|a| a.1).unwrap_or(0),
                        }
                    })
                    .collect::<Vec<_>>()
            })
            .flatten()
            .collect();
        for ts in out.task_submits {
            if let Err(e) = self.inc.server.server_ref().add_new_tasks(ts) {
                self.restore_error = Some(format!("add_new_tasks: {e:?}"));
            }
        }
        self.in_restore = false;
        let _ = std::fs::remove_file(&path);
    }
}

#[derive(Debug, Clone)]
pub struct RestoredTask {
    pub t: Tid,
    pub deps: Vec<Tid>,
    pub instance: u32,
    pub crash_counter: u32,
}
