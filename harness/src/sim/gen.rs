//! Workload generator: chooses the next action from the current simulation state.

use std::collections::BTreeMap;

use super::core::{ClientState, Sim};
use super::types::*;
use crate::rng::Rng;

#[derive(Clone, Debug)]
pub struct Profile {
    pub name: &'static str,
    pub actions: (u64, u64),
    pub max_workers: usize,
    pub max_jobs: usize,
    pub max_tasks_per_submit: u64,
    // weights of action classes
    pub w_connect: u32,
    pub w_kill: u32,
    pub w_deliver: u32,
    pub w_sched: u32,
    pub w_finish: u32,
    pub fail_pct: u64,
    pub w_advance: u32,
    pub w_arm_fail: u32,
    pub w_submit: u32,
    pub w_open: u32,
    pub w_close: u32,
    pub w_cancel: u32,
    pub w_forget: u32,
    pub w_query: u32,
    pub w_stop_worker: u32,
    pub w_flush: u32,
    pub w_answer_flush: u32,
    pub w_crash: u32,
    // shape probabilities (percent)
    pub p_graph: u64,
    pub p_multinode: u64,
    pub p_variants: u64,
    pub p_time_limit: u64,
    pub p_min_time: u64,
    pub p_max_fails: u64,
    pub p_invalid: u64,
    pub p_stream: u64,
    pub p_worker_time_limit: u64,
    pub p_odd_resources: u64,
    /// % of variants with fractional cpu/gpu amounts (several tasks then share one index)
    pub p_fractional: u64,
    pub prio_levels: i32,
    pub p_pct: u64,
    pub p_uniform: u64,
    pub prefill: (u32, u32),
}

impl Profile {
    pub fn base() -> Profile {
        Profile {
            name: "base",
            actions: (60, 320),
            max_workers: 5,
            max_jobs: 5,
            max_tasks_per_submit: 14,
            w_connect: 6,
            w_kill: 5,
            w_deliver: 60,
            w_sched: 14,
            w_finish: 22,
            fail_pct: 12,
            w_advance: 5,
            w_arm_fail: 2,
            w_submit: 10,
            w_open: 2,
            w_close: 2,
            w_cancel: 3,
            w_forget: 1,
            w_query: 2,
            w_stop_worker: 1,
            w_flush: 1,
            w_answer_flush: 8,
            w_crash: 0,
            p_graph: 35,
            p_multinode: 10,
            p_variants: 12,
            p_time_limit: 15,
            p_min_time: 12,
            p_max_fails: 25,
            p_invalid: 8,
            p_stream: 10,
            p_worker_time_limit: 20,
            p_odd_resources: 40,
            p_fractional: 0,
            prio_levels: 4,
            p_pct: 40,
            p_uniform: 25,
            prefill: (1, 3),
        }
    }

    pub fn for_property(prop: &str) -> Profile {
        let mut p = Profile::base();
        match prop {
            "C01" => {
                p.name = "C01";
                p.p_time_limit = 30;
                p.w_advance = 8;
            }
            "C02" => {
                p.name = "C02";
                p.w_arm_fail = 5;
                p.w_cancel = 5;
                p.w_submit = 14;
                p.w_open = 4;
                p.p_odd_resources = 60;
            }
            "C03" => {
                p.name = "C03";
                p.p_graph = 80;
                p.fail_pct = 20;
                p.w_cancel = 4;
                p.max_tasks_per_submit = 16;
            }
            "C04" => {
                p.name = "C04";
                p.p_fractional = 55;
                p.p_uniform = 35;
                p.prefill = (1, 4);
                p.max_tasks_per_submit = 24;
                p.w_cancel = 3;
            }
            "C05" => {
                p.name = "C05";
                p.p_uniform = 35;
                p.prefill = (1, 4);
                p.p_variants = 40;
                p.p_multinode = 18;
                p.p_min_time = 25;
                p.p_worker_time_limit = 40;
                p.max_workers = 6;
            }
            "C06" => {
                p.name = "C06";
                p.p_uniform = 45;
                p.prefill = (1, 4);
                p.p_graph = 15;
                p.max_tasks_per_submit = 24;
                p.prio_levels = 6;
                p.w_kill = 7;
                p.p_pct = 60;
            }
            "C07" => {
                p.name = "C07";
                p.w_kill = 12;
                p.w_connect = 12;
                p.w_stop_worker = 3;
                p.p_worker_time_limit = 35;
                p.w_advance = 7;
                p.p_multinode = 15;
            }
            "C08" => {
                p.name = "C08";
                p.p_uniform = 45;
                p.w_cancel = 9;
                p.prefill = (1, 4);
                p.max_tasks_per_submit = 20;
                p.p_multinode = 12;
                p.p_pct = 60;
            }
            "C09" => {
                p.name = "C09";
                p.w_kill = 7;
                p.w_cancel = 5;
                p.p_invalid = 15;
                p.p_pct = 50;
            }
            "C13" => {
                p.name = "C13";
                p.w_submit = 16;
                p.w_open = 5;
                p.w_close = 4;
                p.w_forget = 3;
                p.w_query = 4;
                p.p_invalid = 22;
                p.p_stream = 30;
                p.w_answer_flush = 4;
                p.max_jobs = 7;
            }
            "C14" => {
                p.name = "C14";
                p.p_max_fails = 85;
                p.fail_pct = 35;
                p.w_arm_fail = 5;
                p.w_kill = 7;
                p.max_tasks_per_submit = 18;
            }
            "C10" | "C11" | "C12" => {
                p.name = "journal";
                p.p_multinode = 18;
                p.w_stop_worker = 3;
                p.max_workers = 6;
                p.w_crash = 0;
                p.w_open = 4;
                p.w_close = 3;
                p.w_forget = 2;
                p.w_flush = 5;
                p.fail_pct = 18;
                p.w_arm_fail = 4;
                p.w_kill = 7;
            }
            _ => {}
        }
        p
    }
}

const CPU: &str = "cpus";
const GPU: &str = "gpus";
const MEM: &str = "mem";

pub fn gen_worker_spec(rng: &mut Rng, p: &Profile, group_hint: Option<&str>) -> WorkerSpec {
    let mut resources = Vec::new();
    let cpus = if rng.chance(p.p_odd_resources, 100) {
        match rng.below(4) {
            0 => ResKind::Groups(vec![2, 2]),
            1 => ResKind::Groups(vec![3, 1]),
            2 => ResKind::Groups(vec![2, 2, 2]),
            _ => ResKind::List(rng.range(1, 5) as u32),
        }
    } else {
        ResKind::Range(*rng.pick(&[1, 2, 4, 4, 6, 8]))
    };
    resources.push(ResSpec {
        name: CPU.into(),
        kind: cpus,
    });
    if rng.chance(45, 100) {
        let k = match rng.below(3) {
            0 => ResKind::Groups(vec![1, 1]),
            1 => ResKind::List(1),
            _ => ResKind::List(rng.range(2, 4) as u32),
        };
        resources.push(ResSpec {
            name: GPU.into(),
            kind: k,
        });
    }
    if rng.chance(40, 100) {
        resources.push(ResSpec {
            name: MEM.into(),
            kind: ResKind::Sum(*rng.pick(&[10u64, 40, 100]) * 10_000),
        });
    }
    let group = match group_hint {
        Some(g) => g.to_string(),
        None => rng.pick(&["g0", "g0", "g1"]).to_string(),
    };
    WorkerSpec {
        resources,
        group,
        time_limit_s: rng
            .chance(p.p_worker_time_limit, 100)
            .then(|| *rng.pick(&[45u64, 130, 400])),
    }
}

/// A worker that can run every request shape the generator produces.
pub fn drain_worker_spec() -> WorkerSpec {
    WorkerSpec {
        resources: vec![
            ResSpec {
                name: CPU.into(),
                kind: ResKind::Groups(vec![4, 4]),
            },
            ResSpec {
                name: GPU.into(),
                kind: ResKind::Groups(vec![2, 2]),
            },
            ResSpec {
                name: MEM.into(),
                kind: ResKind::Sum(200 * 10_000),
            },
        ],
        group: "drain".into(),
        time_limit_s: None,
    }
}

fn entry(resource: &str, policy: Policy, amount: u64) -> EntrySpec {
    EntrySpec {
        resource: resource.into(),
        policy,
        amount,
    }
}

fn gen_variant(rng: &mut Rng, p: &Profile) -> VariantSpec {
    let u = 10_000u64;
    let mut entries = Vec::new();
    // cpus
    if rng.chance(p.p_fractional, 100) {
        let amount = *rng.pick(&[u / 4, u / 2, u / 2, 3 * u / 4, 5 * u / 4, 3 * u / 2, 5 * u / 2]);
        let policy = *rng.pick(&[Policy::Compact, Policy::Compact, Policy::Tight, Policy::Scatter, Policy::ForceCompact, Policy::ForceTight]);
        entries.push(entry(CPU, policy, amount));
        match rng.below(6) {
            0 => entries.push(entry(GPU, Policy::Compact, u / 2)),
            1 => entries.push(entry(GPU, *rng.pick(&[Policy::Tight, Policy::Scatter]), 3 * u / 2)),
            2 => entries.push(entry(MEM, Policy::Compact, 15 * u / 2)),
            _ => {}
        }
        return VariantSpec { n_nodes: 0, min_time_s: 0, entries };
    }
    let c = match rng.below(12) {
        0 => entry(CPU, Policy::Compact, u / 2),
        1 => entry(CPU, Policy::Compact, 3 * u / 2),
        2 => entry(CPU, Policy::All, 0),
        3 => entry(CPU, Policy::Scatter, 2 * u),
        4 => entry(CPU, Policy::ForceCompact, 2 * u),
        5 => entry(CPU, Policy::Tight, 3 * u),
        6 => entry(CPU, Policy::ForceTight, 3 * u),
        7 | 8 => entry(CPU, Policy::Compact, 2 * u),
        9 => entry(CPU, Policy::Compact, 4 * u),
        _ => entry(CPU, Policy::Compact, u),
    };
    entries.push(c);
    match rng.below(10) {
        0 => entries.push(entry(GPU, Policy::Compact, u)),
        1 => entries.push(entry(GPU, Policy::Compact, u / 2)),
        2 => entries.push(entry(MEM, Policy::Compact, 10 * u)),
        3 => entries.push(entry(GPU, Policy::All, 0)),
        _ => {}
    }
    VariantSpec {
        n_nodes: 0,
        min_time_s: if rng.chance(p.p_min_time, 100) {
            *rng.pick(&[30u64, 100])
        } else {
            0
        },
        entries,
    }
}

thread_local! {
    /// request shapes already used in the current run: jobs share shapes often, so that tasks of
    /// different jobs meet in the same scheduler queues and prefill sets
    static REQ_POOL: std::cell::RefCell<Vec<ReqSpec>> = const { std::cell::RefCell::new(Vec::new()) };
}

thread_local! {
    /// "uniform" runs: (almost) all jobs use one request shape and one priority, a few tasks have a
    /// high priority; tasks of different jobs then share queues, prefill sets and retractions
    static UNIFORM: std::cell::Cell<bool> = const { std::cell::Cell::new(false) };
}

pub fn reset_req_pool() {
    REQ_POOL.with(|p| p.borrow_mut().clear());
}

pub fn gen_req(rng: &mut Rng, p: &Profile) -> ReqSpec {
    let reuse = if UNIFORM.with(|u| u.get()) { 92 } else { 55 };
    let pooled: Option<ReqSpec> = REQ_POOL.with(|pool| {
        let pool = pool.borrow();
        if UNIFORM.with(|u| u.get()) && !pool.is_empty() && rng.chance(reuse, 100) {
            return Some(pool[0].clone());
        }
        if !pool.is_empty() && rng.chance(reuse, 100) {
            Some(rng.pick(&pool).clone())
        } else {
            None
        }
    });
    if let Some(r) = pooled {
        return r;
    }
    let r = gen_req_fresh(rng, p);
    REQ_POOL.with(|pool| {
        let mut pool = pool.borrow_mut();
        if pool.len() < 4 {
            pool.push(r.clone());
        }
    });
    r
}

fn gen_req_fresh(rng: &mut Rng, p: &Profile) -> ReqSpec {
    if rng.chance(p.p_multinode, 100) {
        return ReqSpec {
            variants: vec![VariantSpec {
                n_nodes: rng.range(2, 3) as u32,
                min_time_s: if rng.chance(p.p_min_time, 100) { 30 } else { 0 },
                entries: vec![],
            }],
        };
    }
    let mut variants = vec![gen_variant(rng, p)];
    if rng.chance(p.p_variants, 100) {
        let v = if rng.chance(45, 100) {
            // the same resources in another amount: both variants are feasible on the same
            // workers, so the scheduler and a worker (backlog start) can choose differently
            let mut v = variants[0].clone();
            if let Some(e) = v.entries.first_mut() {
                if e.policy != Policy::All {
                    let u = 10_000u64;
                    let other: Vec<u64> = [u / 2, u, 2 * u, 3 * u].into_iter().filter(|a| *a != e.amount).collect();
                    e.amount = *rng.pick(&other);
                    e.policy = Policy::Compact;
                }
            }
            v
        } else {
            gen_variant(rng, p)
        };
        if v != variants[0] {
            variants.push(v);
        }
    }
    ReqSpec { variants }
}

fn gen_attrs(rng: &mut Rng, p: &Profile) -> TaskAttrs {
    let prio = if UNIFORM.with(|u| u.get()) {
        if rng.chance(85, 100) { 0 } else { 3 }
    } else {
        rng.below(p.prio_levels.max(1) as u64) as i32
    };
    TaskAttrs {
        prio,
        time_limit_s: rng
            .chance(p.p_time_limit, 100)
            .then(|| *rng.pick(&[4u64, 15, 50])),
        crash: match rng.below(8) {
            0 => CrashSpec::Never,
            1 => CrashSpec::Unlimited,
            2 => CrashSpec::Max(1),
            3 | 4 => CrashSpec::Max(2),
            5 => CrashSpec::Max(3),
            _ => CrashSpec::Max(5),
        },
    }
}

/// Known ids of a job (from the server's state) used to build follow-up submits.
fn existing_ids(job: &JobLite) -> Vec<u32> {
    job.tasks.iter().map(|t| t.0).collect()
}

pub fn gen_submit_spec(
    rng: &mut Rng,
    p: &Profile,
    into: Option<&JobLite>,
    invalid: bool,
) -> SubmitSpec {
    let n = rng.range(1, p.max_tasks_per_submit);
    let existing: Vec<u32> = into.map(existing_ids).unwrap_or_default();
    let base = existing.iter().max().map(|m| m + 1).unwrap_or(0);
    if rng.chance(p.p_graph, 100) {
        // DAG
        let n_reqs = rng.range(1, 3) as usize;
        let reqs: Vec<ReqSpec> = (0..n_reqs).map(|_| gen_req(rng, p)).collect();
        // task ids need not grow from submit to submit: a later submit into an open job may use
        // ids below everything the job already has (and depend on those tasks)
        let min_existing = existing.iter().min().copied();
        let start = if into.is_some() {
            match min_existing {
                Some(m) if m as u64 >= n && rng.chance(35, 100) => rng.below(m as u64 - n + 1) as u32,
                None if rng.chance(45, 100) => 30 + rng.below(30) as u32,
                _ => base + rng.below(3) as u32,
            }
        } else {
            rng.below(3) as u32
        };
        let mut tasks: Vec<GraphTask> = Vec::new();
        let shape = rng.below(4);
        for i in 0..n as u32 {
            let id = start + i;
            let mut deps: Vec<u32> = Vec::new();
            if i > 0 {
                match shape {
                    0 => deps.push(id - 1), // chain
                    1 => {
                        // random DAG
                        for j in 0..i {
                            if rng.chance(30, 100) {
                                deps.push(start + j);
                            }
                        }
                    }
                    2 => {
                        // fan-out from the first, join at the last
                        if i == n as u32 - 1 && n > 2 {
                            deps.extend((1..i).map(|j| start + j));
                        } else {
                            deps.push(start);
                        }
                    }
                    _ => {
                        if rng.chance(60, 100) {
                            deps.push(start + rng.below(i as u64) as u32);
                        }
                    }
                }
            }
            // dependencies on tasks of earlier submits (any state)
            if !existing.is_empty() && rng.chance(25, 100) {
                deps.push(*rng.pick(&existing));
            }
            deps.sort_unstable();
            deps.dedup();
            // clients do not de-duplicate dependency lists: a repeated id is valid input
            if !deps.is_empty() && rng.chance(6, 100) {
                let d = *rng.pick(&deps);
                deps.push(d);
            }
            tasks.push(GraphTask {
                id,
                deps,
                req: rng.usize_below(n_reqs),
                attrs: gen_attrs(rng, p),
            });
        }
        if invalid {
            match rng.below(5) {
                0 if !existing.is_empty() => tasks[0].id = *rng.pick(&existing),
                4 if tasks.len() >= 2 => {
                    // dependency on a task that is listed LATER in the same submit (the task list
                    // of a graph submit has to be topologically ordered; such a submit is refused)
                    let k = rng.usize_below(tasks.len() - 1);
                    let later = tasks[k + 1 + rng.usize_below(tasks.len() - 1 - k)].id;
                    tasks[k].deps.push(later);
                }
                1 => {
                    let k = rng.usize_below(tasks.len());
                    let id = tasks[k].id;
                    tasks[k].deps.push(id); // self dependency
                }
                2 => {
                    let k = rng.usize_below(tasks.len());
                    tasks[k].deps.push(10_000 + rng.below(10) as u32); // unknown dependency
                }
                _ => {
                    if tasks.len() >= 2 {
                        let id = tasks[0].id;
                        let last = tasks.len() - 1;
                        tasks[last].id = id; // non unique id
                    } else {
                        tasks[0].deps.push(77_777);
                    }
                }
            }
        }
        SubmitSpec::Graph { reqs, tasks }
    } else {
        let req = gen_req(rng, p);
        let attrs = gen_attrs(rng, p);
        let mode = rng.below(4);
        let (ids, entries) = match mode {
            // auto ids, no entries: a single task
            0 => (None, None),
            // auto ids with entries
            1 => (None, Some(n as u32)),
            // explicit ids
            2 => {
                let start = base + rng.below(4) as u32;
                let step = rng.range(1, 2) as u32;
                (Some((0..n as u32).map(|i| start + i * step).collect()), None)
            }
            // explicit ids with entries
            _ => {
                let start = base + rng.below(2) as u32;
                (
                    Some((0..n as u32).map(|i| start + i).collect::<Vec<u32>>()),
                    Some(n as u32),
                )
            }
        };
        let ids = if invalid && !existing.is_empty() {
            // duplicate id
            let mut v = ids.unwrap_or_else(|| vec![base]);
            v[0] = *rng.pick(&existing);
            Some(v)
        } else {
            ids
        };
        // explicit ids with entries must have equal counts
        let entries = match (&ids, entries) {
            (Some(v), Some(_)) => {
                let mut d = v.clone();
                d.sort_unstable();
                d.dedup();
                Some(d.len() as u32)
            }
            (_, e) => e,
        };
        SubmitSpec::Array {
            ids,
            entries,
            req,
            attrs,
        }
    }
}

/// How the delivery actions are ordered.
pub enum Delivery {
    Uniform,
    /// PCT-like: links have priorities, the highest priority non-empty link is delivered;
    /// at the change points a random link gets the lowest priority.
    Pct {
        prios: BTreeMap<(Wid, bool), u64>,
        change_points: Vec<u64>,
    },
}

pub struct Generator {
    pub rng: Rng,
    pub profile: Profile,
    pub delivery: Delivery,
    pub n_actions: u64,
    pub step: u64,
}

impl Generator {
    pub fn new(seed: u64, profile: Profile) -> Generator {
        reset_req_pool();
        let mut rng = Rng::new(seed);
        UNIFORM.with(|u| u.set(rng.chance(profile.p_uniform, 100)));
        let n_actions = rng.range(profile.actions.0, profile.actions.1);
        let delivery = if rng.chance(profile.p_pct, 100) {
            let d = rng.range(1, 4);
            Delivery::Pct {
                prios: BTreeMap::new(),
                change_points: (0..d).map(|_| rng.below(n_actions)).collect(),
            }
        } else {
            Delivery::Uniform
        };
        Generator {
            rng,
            profile,
            delivery,
            n_actions,
            step: 0,
        }
    }

    fn pick_link(&mut self, sim: &Sim) -> Option<(Wid, bool)> {
        // (worker, to_server?)
        let mut links: Vec<(Wid, bool)> = Vec::new();
        for w in sim.workers.values() {
            if w.partitioned {
                continue;
            }
            if !w.to_worker.is_empty() && !w.stopped {
                links.push((w.id, false));
            }
            if !w.to_server.is_empty() {
                links.push((w.id, true));
            }
        }
        if links.is_empty() {
            return None;
        }
        match &mut self.delivery {
            Delivery::Uniform => Some(*self.rng.pick(&links)),
            Delivery::Pct {
                prios,
                change_points,
            } => {
                for l in &links {
                    if !prios.contains_key(l) {
                        let v = 1000 + self.rng.below(1_000_000);
                        prios.insert(*l, v);
                    }
                }
                if change_points.contains(&self.step) {
                    let l = *self.rng.pick(&links);
                    let low = self.rng.below(1000);
                    prios.insert(l, low);
                }
                // mostly strict priority, sometimes uniform to keep things moving
                if self.rng.chance(15, 100) {
                    Some(*self.rng.pick(&links))
                } else {
                    links.iter().copied().max_by_key(|l| prios[l])
                }
            }
        }
    }

    pub fn next_action(&mut self, sim: &mut Sim) -> Option<Action> {
        if self.step >= self.n_actions {
            return None;
        }
        self.step += 1;
        let p = self.profile.clone();
        let jobs = sim.jobs();
        let n_workers = sim.workers.values().filter(|w| !w.stopped).count();
        let open_execs = sim.open_execs();
        let has_link = sim.messages_in_flight() > 0;
        let stopped_closable: Vec<Wid> = sim
            .workers
            .values()
            .filter(|w| w.stopped && w.to_server.is_empty())
            .map(|w| w.id)
            .collect();
        let n_waiting_clients = sim
            .clients
            .iter()
            .filter(|c| c.state == ClientState::Waiting)
            .count();
        let can_request = n_waiting_clients < 3;
        // state-aware workload (C05): when the server's books count more free cpus on a worker than
        // its placed tasks leave, a task that asks for exactly the counted amount turns the
        // disagreement into an observable placement (the oracle stays the plain sum rule)
        if p.name == "C05" && can_request && self.rng.chance(30, 100) {
            let core = sim.core_snapshot();
            let probe = crate::oracle::accounting_errors(&core).into_iter().find_map(|e| {
                // "accounting: worker W resource R: server counts X free, placed tasks leave Y"
                let rest = e.strip_prefix("accounting: worker ")?;
                let mut it = rest.split(' ');
                let _w: u32 = it.next()?.parse().ok()?;
                let r: usize = rest.split("resource ").nth(1)?.split(':').next()?.parse().ok()?;
                let x: u64 = rest.split("server counts ").nth(1)?.split(' ').next()?.parse().ok()?;
                let y: u64 = rest.split("placed tasks leave ").nth(1)?.trim().parse().ok()?;
                (x > y && x > 0).then_some((r, x))
            });
            if let Some((r, amount)) = probe {
                if let Some(name) = core.resource_names.get(r) {
                    let req = ReqSpec { variants: vec![VariantSpec { n_nodes: 0, min_time_s: 0, entries: vec![EntrySpec { resource: name.clone(), policy: Policy::Compact, amount }] }] };
                    return Some(Action::Req {
                        client: sim.idle_client(),
                        req: ClientReq::Submit {
                            job: None,
                            max_fails: None,
                            spec: SubmitSpec::Array { ids: None, entries: Some(2), req, attrs: TaskAttrs { prio: 7, time_limit_s: None, crash: CrashSpec::Max(5) } },
                            stream: false,
                        },
                    });
                }
            }
        }
        // state-aware fault placement: retractions in flight are the rarest window, so cancels and
        // kills are aimed at the jobs/workers involved in one more often
        let (hot_jobs, hot_workers): (Vec<Jid>, Vec<Wid>) = {
            let core = sim.core_snapshot();
            let mut hj = Vec::new();
            let mut hw = Vec::new();
            for t in &core.tasks {
                if let tako::verif::TaskStateSnapshot::Retracting { worker_id } = &t.state {
                    hj.push(t.id.job_id().as_num());
                    hw.push(worker_id.as_num());
                }
            }
            for (_, w, _) in &core.redirects {
                hw.push(w.as_num());
            }
            hj.sort_unstable();
            hj.dedup();
            hw.sort_unstable();
            hw.dedup();
            hw.retain(|w| sim.workers.get(w).map(|h| !h.stopped).unwrap_or(false));
            (hj, hw)
        };
        let hot = !hot_jobs.is_empty();
        // tasks of two jobs being asked back at the same time: the window in which a cancel of one
        // job can disturb the other one is open
        let very_hot = hot_jobs.len() >= 2;
        let boost = |w: u32, f: u32| if very_hot { w * f * 3 } else if hot { w * f } else { w };
        let weights: Vec<u32> = vec![
            /* 0 connect */ if n_workers < p.max_workers { p.w_connect } else { 0 },
            /* 1 kill */ if n_workers > 0 { boost(p.w_kill, 2) } else { 0 },
            /* 2 deliver */ if has_link { p.w_deliver } else { 0 },
            /* 3 sched */ if sim.inc.server.need_scheduling() { p.w_sched } else { 0 },
            /* 4 finish */ if !open_execs.is_empty() { p.w_finish } else { 0 },
            /* 5 advance */ p.w_advance,
            /* 6 arm fail */ if n_workers > 0 { p.w_arm_fail } else { 0 },
            /* 7 submit */ if can_request { p.w_submit } else { 0 },
            /* 8 open */ if can_request && jobs.len() < p.max_jobs { p.w_open } else { 0 },
            /* 9 close */ if can_request && !jobs.is_empty() { p.w_close } else { 0 },
            /* 10 cancel */ if can_request && !jobs.is_empty() { boost(p.w_cancel, 4) } else { 0 },
            /* 11 forget */ if can_request && !jobs.is_empty() { p.w_forget } else { 0 },
            /* 12 query */ if can_request { p.w_query } else { 0 },
            /* 13 stop worker */ if can_request && n_workers > 0 { p.w_stop_worker } else { 0 },
            /* 14 flush */ if can_request { p.w_flush } else { 0 },
            /* 15 answer flush */
            if !sim.pending_flushes.is_empty() || !sim.pending_prunes.is_empty() {
                p.w_answer_flush
            } else {
                0
            },
            /* 16 close link */ if !stopped_closable.is_empty() { 10 } else { 0 },
            /* 17 crash */ p.w_crash,
        ];
        let rng = &mut self.rng;
        let choice = rng.pick_weighted(&weights);
        let live_workers: Vec<Wid> = sim
            .workers
            .values()
            .filter(|w| !w.stopped)
            .map(|w| w.id)
            .collect();
        let action = match choice {
            0 => Action::Connect(gen_worker_spec(rng, &p, None)),
            1 => {
                let w = if !hot_workers.is_empty() && rng.chance(50, 100) {
                    *rng.pick(&hot_workers)
                } else {
                    *rng.pick(&live_workers)
                };
                let h = sim.workers.get(&w);
                let partitioned = h.map(|h| h.partitioned).unwrap_or(false);
                let limited = h.map(|h| h.spec.time_limit_s.is_some()).unwrap_or(false);
                let reason = if rng.chance(70, 100) && !partitioned {
                    Reason::ConnectionLost
                } else {
                    Reason::HeartbeatLost
                };
                // some losses are preceded by a silent phase in which the server still counts on the
                // worker (more often for workers with a time limit: they may pass it unnoticed)
                if !partitioned && rng.chance(if limited { 40 } else { 12 }, 100) {
                    Action::Partition { w }
                } else {
                    Action::Kill { w, reason }
                }
            }
            2 => {
                let (w, to_server) = self.pick_link(sim)?;
                if to_server {
                    Action::ToServer { w }
                } else {
                    Action::ToWorker { w }
                }
            }
            3 => Action::Sched,
            4 => Action::Finish {
                exec: *rng.pick(&open_execs),
                ok: !rng.chance(p.fail_pct, 100),
            },
            5 => Action::Advance {
                secs: *rng.pick(&[1u64, 2, 7, 7, 21, 60]),
            },
            6 => {
                let w = *rng.pick(&live_workers);
                // half of the armed faults are slow stops (a process that takes its time to die)
                if rng.chance(50, 100) { Action::ArmSlowStop { w } } else { Action::ArmLaunchFail { w } }
            }
            7 => {
                // submit: new closed job, or into an existing job (open -> ok, closed -> invalid)
                let invalid = rng.chance(p.p_invalid, 100);
                let open_jobs: Vec<&JobLite> = jobs.iter().filter(|j| j.is_open).collect();
                let target: Option<&JobLite> = if invalid && !jobs.is_empty() && rng.chance(40, 100)
                {
                    Some(*rng.pick(&jobs.iter().collect::<Vec<_>>()))
                } else if !open_jobs.is_empty() && rng.chance(60, 100) {
                    Some(*rng.pick(&open_jobs))
                } else {
                    None
                };
                if target.is_none() && jobs.len() >= p.max_jobs {
                    return Some(Action::Sched);
                }
                let job = match (target, invalid && rng.chance(15, 100)) {
                    (_, true) => Some(900 + rng.below(5) as u32), // unknown job
                    (t, _) => t.map(|j| j.id),
                };
                let spec = gen_submit_spec(rng, &p, target, invalid);
                let stream = job.is_none() && rng.chance(p.p_stream, 100);
                Action::Req {
                    client: usize::MAX,
                    req: ClientReq::Submit {
                        job,
                        max_fails: rng
                            .chance(p.p_max_fails, 100)
                            .then(|| *rng.pick(&[0u32, 0, 1, 2, 4])),
                        spec,
                        stream,
                    },
                }
            }
            8 => Action::Req {
                client: usize::MAX,
                req: ClientReq::Open {
                    max_fails: rng
                        .chance(p.p_max_fails, 100)
                        .then(|| *rng.pick(&[0u32, 1, 2, 4])),
                },
            },
            9 => Action::Req {
                client: usize::MAX,
                req: ClientReq::Close {
                    job: pick_job(rng, &jobs),
                },
            },
            10 => Action::Req {
                client: usize::MAX,
                req: ClientReq::Cancel {
                    job: if hot && rng.chance(if very_hot { 85 } else { 60 }, 100) {
                        *rng.pick(&hot_jobs)
                    } else {
                        pick_job(rng, &jobs)
                    },
                },
            },
            11 => Action::Req {
                client: usize::MAX,
                req: ClientReq::Forget {
                    job: pick_job(rng, &jobs),
                },
            },
            12 if rng.chance(20, 100) && sim.clients.iter().any(|c| c.state == ClientState::Streaming && !c.stream_completed) => {
                // a waiting client gives up
                let waiting: Vec<usize> = sim.clients.iter().enumerate().filter(|(_, c)| c.state == ClientState::Streaming && !c.stream_completed).map(|(i, _)| i).collect();
                Action::HangUp { client: *rng.pick(&waiting) }
            }
            12 => Action::Req {
                client: usize::MAX,
                req: if jobs.is_empty() || rng.chance(40, 100) {
                    ClientReq::Info
                } else {
                    ClientReq::Detail {
                        job: pick_job(rng, &jobs),
                    }
                },
            },
            13 => Action::Req {
                client: usize::MAX,
                req: ClientReq::StopWorker {
                    w: *rng.pick(&live_workers),
                },
            },
            14 => Action::Req {
                client: usize::MAX,
                req: if rng.chance(50, 100) {
                    ClientReq::Prune
                } else {
                    ClientReq::Flush
                },
            },
            15 => {
                if !sim.pending_flushes.is_empty() {
                    Action::AnswerFlush
                } else {
                    Action::AnswerPrune
                }
            }
            16 => Action::CloseLink {
                w: *rng.pick(&stopped_closable),
            },
            _ => Action::Crash {
                keep: sim.durable_len
                    + rng.usize_below(sim.journal.len() - sim.durable_len + 1),
            },
        };
        // resolve the client index now so that the replay file is self-contained
        let action = match action {
            Action::Req { req, .. } => Action::Req {
                client: sim.idle_client(),
                req,
            },
            a => a,
        };
        Some(action)
    }
}

fn pick_job(rng: &mut Rng, jobs: &[JobLite]) -> Jid {
    if rng.chance(4, 100) {
        return 900 + rng.below(3) as u32;
    }
    rng.pick(jobs).id
}
