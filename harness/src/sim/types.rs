//! Plain data shared by the simulation, the workload generator and the oracles.

use serde::{Deserialize, Serialize};

pub type Wid = u32;
pub type Jid = u32;
/// (job id, job task id)
pub type Tid = (u32, u32);

#[derive(Serialize, Deserialize, Clone, Copy, Debug, PartialEq, Eq, Hash, PartialOrd, Ord)]
pub enum Reason {
    Stopped,
    ConnectionLost,
    HeartbeatLost,
    IdleTimeout,
    TimeLimitReached,
}

impl Reason {
    pub fn is_failure(self) -> bool {
        matches!(self, Reason::ConnectionLost | Reason::HeartbeatLost)
    }
    pub fn all() -> [Reason; 5] {
        [
            Reason::Stopped,
            Reason::ConnectionLost,
            Reason::HeartbeatLost,
            Reason::IdleTimeout,
            Reason::TimeLimitReached,
        ]
    }
}

#[derive(Serialize, Deserialize, Clone, Debug, PartialEq, Eq)]
pub enum ResKind {
    Range(u32),
    List(u32),
    Groups(Vec<u32>),
    /// amount in fractions (10_000 per unit)
    Sum(u64),
}

impl ResKind {
    pub fn size(&self) -> u64 {
        match self {
            ResKind::Range(n) | ResKind::List(n) => *n as u64 * 10_000,
            ResKind::Groups(g) => g.iter().map(|x| *x as u64).sum::<u64>() * 10_000,
            ResKind::Sum(a) => *a,
        }
    }
}

#[derive(Serialize, Deserialize, Clone, Debug, PartialEq, Eq)]
pub struct ResSpec {
    pub name: String,
    pub kind: ResKind,
}

#[derive(Serialize, Deserialize, Clone, Debug, PartialEq, Eq)]
pub struct WorkerSpec {
    pub resources: Vec<ResSpec>,
    pub group: String,
    pub time_limit_s: Option<u64>,
}

#[derive(Serialize, Deserialize, Clone, Copy, Debug, PartialEq, Eq, Hash)]
pub enum Policy {
    Compact,
    Tight,
    Scatter,
    ForceCompact,
    ForceTight,
    All,
}

#[derive(Serialize, Deserialize, Clone, Debug, PartialEq, Eq)]
pub struct EntrySpec {
    pub resource: String,
    pub policy: Policy,
    /// fractions (10_000 per unit); ignored for `All`
    pub amount: u64,
}

#[derive(Serialize, Deserialize, Clone, Debug, PartialEq, Eq)]
pub struct VariantSpec {
    pub n_nodes: u32,
    pub min_time_s: u64,
    pub entries: Vec<EntrySpec>,
}

#[derive(Serialize, Deserialize, Clone, Debug, PartialEq, Eq)]
pub struct ReqSpec {
    pub variants: Vec<VariantSpec>,
}

#[derive(Serialize, Deserialize, Clone, Copy, Debug, PartialEq, Eq, Hash)]
pub enum CrashSpec {
    Never,
    Max(u16),
    Unlimited,
}

#[derive(Serialize, Deserialize, Clone, Debug, PartialEq, Eq)]
pub struct TaskAttrs {
    pub prio: i32,
    pub time_limit_s: Option<u64>,
    pub crash: CrashSpec,
}

#[derive(Serialize, Deserialize, Clone, Debug, PartialEq, Eq)]
pub struct GraphTask {
    pub id: u32,
    pub deps: Vec<u32>,
    pub req: usize,
    pub attrs: TaskAttrs,
}

#[derive(Serialize, Deserialize, Clone, Debug, PartialEq, Eq)]
pub enum SubmitSpec {
    Array {
        /// None = let the server assign ids
        ids: Option<Vec<u32>>,
        /// Some(n) = n entries
        entries: Option<u32>,
        req: ReqSpec,
        attrs: TaskAttrs,
    },
    Graph {
        reqs: Vec<ReqSpec>,
        tasks: Vec<GraphTask>,
    },
}

#[derive(Serialize, Deserialize, Clone, Debug, PartialEq, Eq)]
pub enum ClientReq {
    Submit {
        job: Option<Jid>,
        max_fails: Option<u32>,
        spec: SubmitSpec,
        stream: bool,
    },
    Open {
        max_fails: Option<u32>,
    },
    Close {
        job: Jid,
    },
    Cancel {
        job: Jid,
    },
    Forget {
        job: Jid,
    },
    Info,
    Detail {
        job: Jid,
    },
    StopWorker {
        w: Wid,
    },
    Prune,
    Flush,
}

#[derive(Serialize, Deserialize, Clone, Debug, PartialEq, Eq)]
pub enum Action {
    Connect(WorkerSpec),
    Kill { w: Wid, reason: Reason },
    ToWorker { w: Wid },
    ToServer { w: Wid },
    CloseLink { w: Wid },
    Sched,
    Finish { exec: usize, ok: bool },
    Advance { secs: u64 },
    ArmLaunchFail { w: Wid },
    /// The next execution told to stop on this worker ends only when the harness finishes it.
    ArmSlowStop { w: Wid },
    /// The worker's own clock is `secs` ahead of what the harness accounts for (a stalled worker
    /// process whose time-limit timer has not fired yet). Never generated; used by witnesses.
    AgeWorker { w: Wid, secs: u64 },
    /// A client that waits for its job (`hq submit --wait`) goes away before the job has ended
    /// (Ctrl-C): its connection is closed.
    HangUp { client: usize },
    /// The link of this worker stops delivering in both directions (network partition, frozen
    /// host): the server keeps the worker registered - also past the worker's time limit - until
    /// it is removed for a lost heartbeat.
    Partition { w: Wid },
    Req { client: usize, req: ClientReq },
    AnswerFlush,
    AnswerPrune,
    /// Server crash; the journal keeps its first `keep` records.
    Crash { keep: usize },
}

/* ----------------------------------- observations ------------------------------------------ */

#[derive(Serialize, Deserialize, Clone, Debug, PartialEq, Eq)]
pub enum Ev {
    WorkerConnected(Wid),
    WorkerLost(Wid, Reason),
    Submit { job: Jid, closed: bool },
    JobCompleted(Jid),
    JobOpen(Jid),
    JobClose(Jid),
    JobIdle(Jid),
    JobCancel(Jid),
    TaskStarted { t: Tid, instance: u32, workers: Vec<Wid>, rv: u32 },
    TaskFinished(Tid),
    TaskFailed { t: Tid, msg: String },
    TasksCanceled(Vec<Tid>),
    TasksAborted(Vec<Tid>),
    QueueCreated(u32),
    QueueRemoved(u32),
    AllocQueued { queue: u32, alloc: String, workers: u64 },
    AllocStarted(u32, String),
    AllocFinished(u32, String),
    ServerStart,
    ServerStop,
    Other,
}

#[derive(Serialize, Deserialize, Clone, Debug, PartialEq, Eq)]
pub struct AllocLite {
    /// (resource id, amount fractions, [(index, group, fractions)])
    pub resources: Vec<(u32, u64, Vec<(u32, u32, u32)>)>,
}

#[derive(Serialize, Deserialize, Clone, Debug, PartialEq, Eq)]
pub enum ToWorkerLite {
    /// (task, instance, Some(rv) or None = prefill, node list)
    Compute(Vec<(Tid, u32, Option<u32>, Vec<Wid>)>),
    Retract(Vec<Tid>),
    Cancel(Vec<Tid>),
    NewWorker(Wid),
    LostWorker(Wid),
    NewRequest(u32),
    Stop,
    Other,
}

#[derive(Serialize, Deserialize, Clone, Debug, PartialEq, Eq)]
pub enum UpdateLite {
    Finished(Tid),
    Failed(Tid, String),
    Running(Tid, u32),
    RunningPrefilled(Tid, u32),
    Reject(Tid, Option<u32>),
    Enable(u32, u32),
}

#[derive(Serialize, Deserialize, Clone, Debug, PartialEq, Eq)]
pub enum FromWorkerLite {
    Updates(Vec<UpdateLite>),
    RetractResponse(Vec<Tid>),
    Other,
}

#[derive(Serialize, Deserialize, Clone, Debug, PartialEq, Eq)]
pub enum EndHow {
    Finished,
    Failed,
    Canceled,
    Timeouted,
    /// the worker process is gone (killed / stopped / server crash)
    WorkerGone,
}

#[derive(Serialize, Deserialize, Clone, Debug, PartialEq, Eq)]
pub enum TaskStateLite {
    Waiting,
    Running { workers: Vec<Wid>, instance: u32 },
    Finished,
    Failed { msg: String, started: bool },
    Canceled,
    Aborted,
}

impl TaskStateLite {
    pub fn is_terminal(&self) -> bool {
        !matches!(self, TaskStateLite::Waiting | TaskStateLite::Running { .. })
    }
    pub fn kind(&self) -> &'static str {
        match self {
            TaskStateLite::Waiting => "waiting",
            TaskStateLite::Running { .. } => "running",
            TaskStateLite::Finished => "finished",
            TaskStateLite::Failed { .. } => "failed",
            TaskStateLite::Canceled => "canceled",
            TaskStateLite::Aborted => "aborted",
        }
    }
}

#[derive(Serialize, Deserialize, Clone, Debug, PartialEq, Eq, Default)]
pub struct CountersLite {
    pub running: u32,
    pub finished: u32,
    pub failed: u32,
    pub canceled: u32,
    pub aborted: u32,
}

#[derive(Serialize, Deserialize, Clone, Debug, PartialEq, Eq)]
pub struct JobLite {
    pub id: Jid,
    pub n_tasks: u32,
    pub counters: CountersLite,
    pub is_open: bool,
    pub max_fails: Option<u32>,
    pub tasks: Vec<(u32, TaskStateLite)>,
    pub completed: bool,
    /// what the real `client::status::job_status` derives from the job's info ("" = not taken)
    #[serde(default)]
    pub status: String,
}

#[derive(Serialize, Deserialize, Clone, Debug, PartialEq, Eq)]
pub enum RespLite {
    SubmitOk { job: Jid, task_ids: Vec<u32> },
    SubmitRejected(String),
    Opened(Jid),
    Closed(Vec<(Jid, String)>),
    /// per job: Some((canceled ids, already finished)) or None = invalid job
    Canceled(Vec<(Jid, Option<(Vec<u32>, u32)>)>),
    Forgotten { forgotten: usize, ignored: usize },
    Info(Vec<(Jid, u32, CountersLite, bool)>),
    Detail(Vec<(Jid, Option<JobLite>)>),
    StopWorker(Vec<(Wid, String)>),
    Finished,
    Event(Ev),
    Error(String),
    Other,
}

#[derive(Serialize, Deserialize, Clone, Debug, PartialEq, Eq)]
pub enum Obs {
    Action(Action),
    CbStarted { t: Tid, instance: u32, workers: Vec<Wid>, rv: u32 },
    CbFinished { t: Tid },
    CbError { t: Tid, consumers: Vec<Tid>, msg: String, cancel: Vec<Tid> },
    CbWorkerNew { w: Wid },
    CbWorkerLost { w: Wid, running: Vec<Tid>, reason: Reason },
    Journal(Ev),
    Live(Ev),
    ExecStart { exec: usize, w: Wid, t: Tid, instance: u32, rv: u32, alloc: AllocLite, nodes: Vec<Wid> },
    ExecStop { exec: usize, timeout: bool },
    ExecEnd { exec: usize, how: EndHow },
    LaunchFail { w: Wid, t: Tid, instance: u32 },
    SrvSent { w: Wid, m: ToWorkerLite },
    WorkerGot { w: Wid, m: ToWorkerLite },
    WorkerSent { w: Wid, m: FromWorkerLite },
    SrvGot { w: Wid, m: FromWorkerLite },
    Connected { w: Wid, spec: WorkerSpec, at_s: u64 },
    WorkerRemoved { w: Wid, reason: Reason },
    Req { c: usize, r: ClientReq },
    Resp { c: usize, r: RespLite },
    Sched { at_s: u64, result: u8 },
    FlushAnswered,
    Restart { keep: usize, total: usize },
    Note(String),
}
