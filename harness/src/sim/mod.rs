pub mod conv;
pub mod core;
pub mod r#gen;
pub mod run;
pub mod types;
