//! Run loop of E1: apply actions, settle, call the monitors, drain to quiescence.

use std::path::PathBuf;

use futures::FutureExt;
use std::panic::AssertUnwindSafe;

use super::core::{ClientState, Sim, SimConfig};
use super::r#gen::{Generator, Profile, drain_worker_spec};
use super::types::*;
use crate::oracle::Monitors;
use crate::panics::{self, PanicRecord};

#[derive(Debug, Clone, serde::Serialize, serde::Deserialize)]
pub struct Violation {
    pub prop: String,
    pub rule: String,
    pub detail: String,
    pub step: u32,
}

#[derive(Debug, Clone, serde::Serialize, serde::Deserialize, PartialEq, Eq)]
pub enum Outcome {
    Quiescent,
    /// the step budget of the drain was exhausted
    NoQuiescence,
    /// a panic inside repository code ended the run (this is C09's business)
    RepoPanic,
    /// the harness itself failed
    HarnessError(String),
}

pub struct RunResult {
    pub seed: u64,
    pub actions: Vec<Action>,
    pub outcome: Outcome,
    pub violations: Vec<Violation>,
    pub panics: Vec<PanicRecord>,
    pub monitors: Monitors,
    pub n_steps: u32,
    pub log: Vec<(u32, Obs)>,
    pub journal: Vec<hyperqueue::server::event::Event>,
    pub prune_points: Vec<(usize, Vec<u32>, Vec<u32>)>,
    pub restore_error: Option<String>,
    pub n_restarts: u32,
}

pub async fn apply(sim: &mut Sim, action: &Action) {
    sim.obs(Obs::Action(action.clone()));
    match action {
        Action::Connect(spec) => {
            sim.connect_worker(spec);
        }
        Action::Kill { w, reason } => {
            if reason.is_failure() || sim.workers.get(w).map(|h| h.partitioned).unwrap_or(false) {
                sim.kill_worker(*w, *reason);
            } else {
                // graceful end: what the worker has already sent still arrives
                loop {
                    let pending = sim
                        .workers
                        .get(w)
                        .map(|h| !h.to_server.is_empty())
                        .unwrap_or(false);
                    if !pending {
                        break;
                    }
                    sim.deliver_to_server(*w);
                    sim.settle().await;
                    if panics::any() {
                        return;
                    }
                }
                sim.kill_worker(*w, *reason);
            }
        }
        Action::ToWorker { w } => sim.deliver_to_worker(*w),
        Action::ToServer { w } => sim.deliver_to_server(*w),
        Action::CloseLink { w } => sim.close_link(*w),
        Action::Sched => sim.sched(),
        Action::Finish { exec, ok } => sim.finish_exec(*exec, *ok),
        Action::Advance { secs } => sim.advance(*secs).await,
        Action::ArmLaunchFail { w } => sim.arm_launch_fail(*w),
        Action::ArmSlowStop { w } => sim.arm_slow_stop(*w),
        Action::Partition { w } => sim.partition(*w),
        Action::HangUp { client } => sim.hang_up(*client),
        Action::AgeWorker { w, secs } => {
            if let Some(h) = sim.workers.get(w) {
                h.sim.shift_start_time(std::time::Duration::from_secs(*secs));
            }
        }
        Action::Req { client, req } => sim.client_request(*client, req),
        Action::AnswerFlush => sim.answer_flush(),
        Action::AnswerPrune => sim.answer_prune(),
        Action::Crash { keep } => sim.crash_and_restart(*keep).await,
    }
    sim.settle().await;
    sim.wait_blocking_clients().await;
}

pub enum Source {
    Generate { seed: u64, profile: Profile },
    Replay { actions: Vec<Action>, profile: Profile },
}

fn tmp_dir() -> PathBuf {
    let base = std::env::var("HQV_TMP").unwrap_or_else(|_| "/tmp".to_string());
    let d = PathBuf::from(base).join(format!("hqv-{}", std::process::id()));
    std::fs::create_dir_all(&d).unwrap();
    d
}

/// One complete run. Must be called inside a fresh paused current-thread runtime + LocalSet.
pub async fn run(source: Source, drain: bool) -> RunResult {
    let (seed, profile, mut generator, replay) = match source {
        Source::Generate { seed, profile } => (
            seed,
            profile.clone(),
            Some(Generator::new(seed, profile)),
            None,
        ),
        Source::Replay { actions, profile } => (0, profile, None, Some(actions)),
    };
    let _ = panics::take();
    let mut sim = Sim::new(SimConfig {
        prefill_reserve: profile.prefill.0,
        prefill_max: profile.prefill.1,
        journal_dir: tmp_dir(),
        real_launcher: None,
    });
    let mut monitors = Monitors::new();
    let mut actions: Vec<Action> = Vec::new();
    let mut violations: Vec<Violation> = Vec::new();
    let mut outcome = Outcome::Quiescent;
    let mut cursor = 0usize;
    let mut replay_iter = replay.map(|a| a.into_iter());

    macro_rules! after_step {
        () => {{
            let recorded = panics::take();
            if !recorded.is_empty() {
                let harness = recorded.iter().any(|p| p.in_harness);
                outcome = if harness {
                    Outcome::HarnessError(format!("{:?}", recorded[0]))
                } else {
                    Outcome::RepoPanic
                };
                Some(recorded)
            } else if let Some(b) = &sim.broken {
                outcome = Outcome::HarnessError(b.clone());
                Some(Vec::new())
            } else {
                let new: Vec<(u32, Obs)> = sim.shared.borrow().log[cursor..].to_vec();
                cursor += new.len();
                monitors.after_step(&sim, &new, &mut violations);
                None
            }
        }};
    }

    let mut fatal: Option<Vec<PanicRecord>> = None;
    // phase 1: hostile phase
    loop {
        let action = if let Some(g) = generator.as_mut() {
            g.next_action(&mut sim)
        } else {
            replay_iter.as_mut().unwrap().next()
        };
        let Some(action) = action else { break };
        sim.shared.borrow_mut().step += 1;
        actions.push(action.clone());
        let _ = AssertUnwindSafe(apply(&mut sim, &action)).catch_unwind().await;
        if let Some(p) = after_step!() {
            fatal = Some(p);
            break;
        }
    }

    // phase 2: drain (only when generating; a replay file already contains the drain actions)
    if fatal.is_none() && drain {
        let budget = 60 * (sim.jobs().iter().map(|j| j.n_tasks as usize).sum::<usize>() + 10);
        let mut steps = 0usize;
        monitors.drain_started(&sim);
        // A replayed witness usually ends with the drain of the run it was recorded from. If the
        // system is already at rest with those drain workers connected, connecting three more
        // would wake the scheduler up again and hide exactly the stuck state the witness shows.
        let already_drained = generator.is_none()
            && next_drain_action(&mut sim).is_none()
            && sim.workers.values().filter(|w| !w.stopped && w.spec.group == "drain").count() >= 3;
        // capable workers: enough of one group for the largest multi-node request
        let mut drain_workers = Vec::new();
        for _ in 0..(if already_drained { 0 } else { 3 }) {
            let a = Action::Connect(drain_worker_spec());
            sim.shared.borrow_mut().step += 1;
            actions.push(a.clone());
            let _ = AssertUnwindSafe(apply(&mut sim, &a)).catch_unwind().await;
            if let Some(p) = after_step!() {
                fatal = Some(p);
                break;
            }
            drain_workers.push(0);
        }
        while fatal.is_none() {
            let action = next_drain_action(&mut sim);
            let Some(action) = action else { break };
            steps += 1;
            if steps > budget {
                outcome = Outcome::NoQuiescence;
                break;
            }
            sim.shared.borrow_mut().step += 1;
            actions.push(action.clone());
            let _ = AssertUnwindSafe(apply(&mut sim, &action)).catch_unwind().await;
            if let Some(p) = after_step!() {
                fatal = Some(p);
                break;
            }
        }
    }

    let quiescent = fatal.is_none() && outcome == Outcome::Quiescent && drain;
    if fatal.is_none() {
        monitors.at_end(&sim, quiescent, &mut violations);
    }
    let n_steps = sim.shared.borrow().step;
    let log = std::mem::take(&mut sim.shared.borrow_mut().log);
    let journal = std::mem::take(&mut sim.journal);
    let prune_points = std::mem::take(&mut sim.prune_points);
    let restore_error = sim.restore_error.clone();
    let n_restarts = sim.n_restarts;
    RunResult {
        journal,
        prune_points,
        restore_error,
        n_restarts,
        seed,
        actions,
        outcome,
        violations,
        panics: fatal.unwrap_or_default(),
        monitors,
        n_steps,
        log,
    }
}

/// Deterministic fault-free continuation: deliver everything, finish everything, schedule when
/// asked, answer flushes; `None` = quiescent.
fn next_drain_action(sim: &mut Sim) -> Option<Action> {
    if !sim.pending_flushes.is_empty() {
        return Some(Action::AnswerFlush);
    }
    if !sim.pending_prunes.is_empty() {
        return Some(Action::AnswerPrune);
    }
    // the server eventually gives up on a worker it does not hear from
    for w in sim.workers.values() {
        if w.partitioned {
            return Some(Action::Kill { w: w.id, reason: Reason::HeartbeatLost });
        }
    }
    for w in sim.workers.values() {
        if !w.to_server.is_empty() {
            return Some(Action::ToServer { w: w.id });
        }
    }
    for w in sim.workers.values() {
        if w.stopped {
            return Some(Action::CloseLink { w: w.id });
        }
    }
    for w in sim.workers.values() {
        if !w.to_worker.is_empty() {
            return Some(Action::ToWorker { w: w.id });
        }
    }
    if sim.inc.server.need_scheduling() {
        return Some(Action::Sched);
    }
    if let Some(exec) = sim.open_execs().first() {
        return Some(Action::Finish {
            exec: *exec,
            ok: true,
        });
    }
    let _ = ClientState::Idle;
    None
}
