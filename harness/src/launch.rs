//! E8 — launcher lab (C04 rule A7, second producer of C19): real processes are started through
//! the real `HqTaskLauncher` by the real `WorkerState` (server side = the simulation's real core,
//! job layer and client loop; real time, real pipes). Each task dumps its environment and writes
//! known bytes to stdout/stderr, which `resend_stdio` streams into the stream directory.
//!  * A7: `HQ_RESOURCE_VALUES_*` (and `HQ_CPUS`, `CUDA_VISIBLE_DEVICES`) of every task name
//!    exactly the indices of the allocation the worker holds for that task while it runs.
//!  * C19: the stream directory written by the launcher reads back byte-exactly through
//!    `OutputLog::cat/export/summary`.

use std::collections::{BTreeMap, BTreeSet};
use std::path::{Path, PathBuf};
use std::time::{Duration, Instant};

use hyperqueue::client::commands::outputlog::{CatOpts, Channel, ExportOpts};
use hyperqueue::stream::reader::outputlog::OutputLog;
use hyperqueue::transfer::messages::{
    FromClientMessage, JobDescription, JobSubmitDescription, JobTaskDescription, PinMode, SubmitRequest, TaskDescription, TaskKind, TaskKindProgram, TaskWithDependencies,
};
use serde_json::json;
use tako::gateway::CrashLimit;
use tako::program::{ProgramDefinition, StdioDef};
use tako::{JobTaskId, UserPriority};

use crate::rng::{self, Rng};
use crate::shard::{Args, save_replay_value};
use crate::sim::conv;
use crate::sim::core::{Sim, SimConfig};
use crate::sim::types::*;
use crate::stream::capture_stdout;

const U: u64 = 10_000;

#[derive(Clone, Debug, serde::Serialize, serde::Deserialize)]
pub struct TaskCase {
    pub id: u32,
    pub req: ReqSpec,
    /// number of small interleaved writes to stdout and stderr
    pub rounds: u32,
    /// size of the final block written to stdout
    pub block: u32,
    pub exit_code: u32,
    pub sleep_ms: u32,
}

#[derive(Clone, Debug, serde::Serialize, serde::Deserialize)]
pub struct Case {
    pub workers: Vec<WorkerSpec>,
    pub tasks: Vec<TaskCase>,
}

fn entry(resource: &str, policy: Policy, amount: u64) -> EntrySpec {
    EntrySpec { resource: resource.into(), policy, amount }
}

pub fn gen_case(seed: u64) -> Case {
    let mut rng = Rng::new(seed);
    let n_workers = rng.range(1, 2);
    let workers = (0..n_workers)
        .map(|_| WorkerSpec {
            resources: vec![
                ResSpec { name: "cpus".into(), kind: if rng.chance(50, 100) { ResKind::Range(4) } else { ResKind::Groups(vec![2, 2]) } },
                ResSpec { name: "gpus/nvidia".into(), kind: ResKind::List(2) },
                ResSpec { name: "mem".into(), kind: ResKind::Sum(100 * U) },
            ],
            group: "g".into(),
            time_limit_s: None,
        })
        .collect();
    let n_tasks = rng.range(4, 18) as u32;
    let tasks = (0..n_tasks)
        .map(|id| {
            let mut entries = vec![match rng.below(8) {
                0 => entry("cpus", Policy::Compact, U / 2),
                1 => entry("cpus", Policy::Compact, 3 * U / 2),
                2 => entry("cpus", Policy::Scatter, 2 * U),
                3 => entry("cpus", Policy::Tight, 2 * U),
                4 => entry("cpus", Policy::All, 0),
                5 => entry("cpus", Policy::Compact, 3 * U),
                _ => entry("cpus", Policy::Compact, U),
            }];
            match rng.below(6) {
                0 => entries.push(entry("gpus/nvidia", Policy::Compact, U)),
                1 => entries.push(entry("gpus/nvidia", Policy::Compact, U / 2)),
                2 => entries.push(entry("mem", Policy::Compact, 30 * U)),
                _ => {}
            }
            TaskCase {
                id,
                req: ReqSpec { variants: vec![VariantSpec { n_nodes: 0, min_time_s: 0, entries }] },
                rounds: match rng.below(5) {
                    0 => 0,
                    1 => rng.range(50, 300) as u32,
                    _ => rng.range(1, 12) as u32,
                },
                block: match rng.below(6) {
                    0 => 0,
                    1 => 16 * 1024,
                    2 => 16 * 1024 + 1,
                    3 => rng.range(40_000, 200_000) as u32,
                    _ => rng.range(1, 3000) as u32,
                },
                exit_code: if rng.chance(15, 100) { 3 } else { 0 },
                sleep_ms: if rng.chance(30, 100) { rng.range(10, 60) as u32 } else { 0 },
            }
        })
        .collect();
    Case { workers, tasks }
}

fn script(t: &TaskCase) -> String {
    let sleep = if t.sleep_ms > 0 { format!("sleep 0.{:03}; ", t.sleep_ms) } else { String::new() };
    format!(
        "env > \"$HQ_SUBMIT_DIR/env.$HQ_TASK_ID.$HQ_INSTANCE_ID\"; i=0; while [ $i -lt {r} ]; do printf '%s' \"<o:$HQ_TASK_ID:$i>\"; printf '%s' \"<e:$HQ_TASK_ID:$i>\" >&2; i=$((i+1)); done; {sleep}head -c {b} /dev/zero | tr '\\0' 'z'; exit {e}",
        r = t.rounds,
        b = t.block,
        e = t.exit_code,
    )
}

fn expected(t: &TaskCase, ch: usize) -> Vec<u8> {
    let mut out = Vec::new();
    for i in 0..t.rounds {
        out.extend_from_slice(format!("<{}:{}:{}>", if ch == 0 { 'o' } else { 'e' }, t.id, i).as_bytes());
    }
    if ch == 0 {
        out.extend(std::iter::repeat(b'z').take(t.block as usize));
    }
    out
}

pub struct Rep {
    pub violations: Vec<(String, String, String)>,
    pub cov: BTreeMap<String, u64>,
    pub inconclusive: Option<String>,
}

impl Rep {
    fn v(&mut self, prop: &str, rule: &str, detail: String) {
        if !self.violations.iter().any(|x| x.0 == prop && x.1 == rule) {
            self.violations.push((prop.into(), rule.into(), detail));
        }
    }
    fn c(&mut self, k: &str, n: u64) {
        *self.cov.entry(k.to_string()).or_insert(0) += n;
    }
}

fn labels_of(value: &str) -> BTreeSet<String> {
    value.split(',').filter(|s| !s.is_empty()).map(|s| s.trim().to_string()).collect()
}

pub async fn run_case(case: &Case, tmp: &Path) -> Rep {
    let mut rep = Rep { violations: vec![], cov: BTreeMap::new(), inconclusive: None };
    let _ = std::fs::remove_dir_all(tmp);
    let submit_dir = tmp.join("submit");
    let stream_dir = tmp.join("stream");
    let work_dir = tmp.join("work");
    for d in [&submit_dir, &stream_dir, &work_dir] {
        std::fs::create_dir_all(d).unwrap();
    }
    let mut sim = Sim::new(SimConfig { prefill_reserve: 2, prefill_max: 4, journal_dir: tmp.join("journal"), real_launcher: Some(work_dir.clone()) });
    let mut wids = Vec::new();
    for w in &case.workers {
        wids.push(sim.connect_worker(w));
    }
    sim.settle().await;
    // one graph submit: every task has its own program
    let reqs: Vec<_> = case.tasks.iter().map(|t| conv::request(&t.req)).collect();
    let tasks: Vec<TaskWithDependencies> = case
        .tasks
        .iter()
        .enumerate()
        .map(|(k, t)| TaskWithDependencies {
            id: JobTaskId::new(t.id),
            resource_rq_id: hyperqueue::transfer::messages::LocalResourceRqId::new(k as u32),
            task_desc: TaskDescription {
                kind: TaskKind::ExternalProgram(TaskKindProgram {
                    program: ProgramDefinition {
                        args: vec!["sh".into(), "-c".into(), script(t).into()],
                        env: Default::default(),
                        stdout: StdioDef::Pipe,
                        stderr: StdioDef::Pipe,
                        stdin: Vec::new(),
                        cwd: submit_dir.clone(),
                    },
                    pin_mode: PinMode::None,
                    task_dir: false,
                }),
                time_limit: None,
                priority: UserPriority::new(0),
                crash_limit: CrashLimit::MaxCrashes(5),
            },
            task_deps: Default::default(),
        })
        .collect();
    let request = SubmitRequest {
        job_desc: JobDescription { name: "launch".into(), max_fails: None },
        submit_desc: JobSubmitDescription { task_desc: JobTaskDescription::Graph { resource_rqs: reqs, tasks }, submit_dir: submit_dir.clone(), stream_path: Some(stream_dir.clone()) },
        job_id: None,
    };
    sim.client_raw(0, FromClientMessage::Submit(request, None));
    sim.settle().await;
    while !sim.pending_flushes.is_empty() {
        sim.answer_flush();
        sim.settle().await;
    }
    // run until every task is terminal; sample what the workers hold while tasks run
    let mut held: BTreeMap<(u32, u32), Vec<(u32, Vec<u32>)>> = BTreeMap::new(); // (task, instance) -> [(resource id, indices)]
    let start = Instant::now();
    let names = sim.core_snapshot().resource_names.clone();
    loop {
        sim.sched();
        sim.settle().await;
        for w in &wids {
            while sim.workers.get(w).map(|h| !h.to_worker.is_empty()).unwrap_or(false) {
                sim.deliver_to_worker(*w);
                sim.settle().await;
            }
            if let Some(s) = sim.worker_snapshot(*w) {
                for (tid, inst, _rv, alloc) in &s.running {
                    held.entry((tid.job_task_id().as_num(), inst.as_num()))
                        .or_insert_with(|| alloc.resources.iter().map(|(rid, _amount, ix)| (*rid, ix.iter().map(|i| i.0).collect())).collect());
                }
            }
        }
        tokio::time::sleep(Duration::from_millis(3)).await;
        sim.settle().await;
        for w in &wids {
            while sim.workers.get(w).map(|h| !h.to_server.is_empty()).unwrap_or(false) {
                sim.deliver_to_server(*w);
                sim.settle().await;
            }
        }
        while !sim.pending_flushes.is_empty() {
            sim.answer_flush();
            sim.settle().await;
        }
        let jobs = sim.jobs();
        let done = jobs.first().map(|j| j.counters.finished + j.counters.failed + j.counters.canceled + j.counters.aborted == j.n_tasks).unwrap_or(false);
        if done {
            break;
        }
        if crate::panics::any() || sim.broken.is_some() {
            rep.inconclusive = Some(format!("simulation broke: {:?}", sim.broken));
            return rep;
        }
        if start.elapsed() > Duration::from_secs(60) {
            rep.inconclusive = Some("watchdog: the job did not end within 60 s of real time".into());
            return rep;
        }
    }
    let jobs = sim.jobs();
    let job = jobs[0].clone();
    drop(sim);
    for _ in 0..10 {
        tokio::task::yield_now().await;
    }
    rep.c("tasks_run_by_real_launcher", case.tasks.len() as u64);
    // ---- A7: environment vs. held allocation
    for t in &case.tasks {
        let instance = 0u32;
        let path = submit_dir.join(format!("env.{}.{}", t.id, instance));
        let Ok(text) = std::fs::read_to_string(&path) else {
            rep.v("C04", "A7-task-wrote-no-environment", format!("task {}: {} is missing", t.id, path.display()));
            continue;
        };
        let env: BTreeMap<&str, &str> = text.lines().filter_map(|l| l.split_once('=')).collect();
        let Some(alloc) = held.get(&(t.id, instance)) else {
            rep.c("tasks_not_sampled_while_running", 1);
            continue;
        };
        rep.c("environments_compared", 1);
        for (rid, indices) in alloc {
            let name = names.get(*rid as usize).cloned().unwrap_or_default();
            let var = format!("HQ_RESOURCE_VALUES_{}", name.replace('/', "_"));
            // labels as the worker's resource descriptor defines them (conv::descriptor): a list
            // resource names its indices L0, L1, ..; ranges and groups use the index number
            let is_list = case.workers.iter().any(|w| w.resources.iter().any(|r| r.name == name && matches!(r.kind, ResKind::List(_))));
            let want: BTreeSet<String> = indices.iter().map(|i| if is_list { format!("L{i}") } else { i.to_string() }).collect();
            if indices.is_empty() {
                // sum resource: no labels
                if env.contains_key(var.as_str()) {
                    rep.v("C04", "A7-labels-for-sum-resource", format!("task {}: {var}={:?} although the resource has no indices", t.id, env.get(var.as_str())));
                }
                continue;
            }
            let got = env.get(var.as_str()).map(|v| labels_of(v));
            if got.as_ref() != Some(&want) {
                rep.v("C04", "A7-environment-names-other-indices", format!("task {}: the worker holds indices {want:?} of {name} for it, its environment says {var}={:?}", t.id, env.get(var.as_str())));
            }
            rep.c("resource_label_sets_compared", 1);
            if name == "cpus" && env.get("HQ_CPUS").map(|v| labels_of(v)) != Some(want.clone()) {
                rep.v("C04", "A7-environment-names-other-indices", format!("task {}: HQ_CPUS={:?}, held {want:?}", t.id, env.get("HQ_CPUS")));
            }
            if name == "gpus/nvidia" {
                rep.c("gpu_label_sets_compared", 1);
                if env.get("CUDA_VISIBLE_DEVICES").map(|v| labels_of(v)) != Some(want.clone()) {
                    rep.v("C04", "A7-environment-names-other-indices", format!("task {}: CUDA_VISIBLE_DEVICES={:?}, held {want:?}", t.id, env.get("CUDA_VISIBLE_DEVICES")));
                }
            }
        }
        // no variable for a resource that is not part of the allocation
        for (k, v) in &env {
            if let Some(n) = k.strip_prefix("HQ_RESOURCE_VALUES_") {
                if !alloc.iter().any(|(rid, _)| names.get(*rid as usize).map(|x| x.replace('/', "_")) == Some(n.to_string())) {
                    rep.v("C04", "A7-labels-of-resource-not-held", format!("task {}: {k}={v} but the allocation has no such resource", t.id));
                }
            }
        }
    }
    // ---- C19: read the stream directory back
    let cap = tmp.join("capture.bin");
    match OutputLog::open(&stream_dir, None) {
        Err(e) => rep.v("C19", "S0-open-failed", format!("{e:?}")),
        Ok(mut log) => {
            for t in &case.tasks {
                let state = job.tasks.iter().find(|x| x.0 == t.id).map(|x| format!("{:?}", x.1)).unwrap_or_default();
                for (ch, channel) in [(0usize, Channel::Stdout), (1usize, Channel::Stderr)] {
                    let opts = CatOpts { job: 1.into(), channel, task: Some(conv::int_array(&[t.id])), allow_unfinished: false };
                    let (r, bytes) = capture_stdout(&cap, || log.cat(&opts));
                    let want = expected(t, ch);
                    match r {
                        Err(e) => rep.v("C19", "S1-cat-fails-for-finished-task", format!("task {} ({state}) channel {ch}: {e}", t.id)),
                        Ok(()) => {
                            if bytes != want {
                                let n = bytes.iter().zip(want.iter()).take_while(|(a, b)| a == b).count();
                                rep.v("C19", "S1-bytes-differ", format!("task {} ({state}) channel {ch}: read {} bytes, the process wrote {}; first difference at byte {n}", t.id, bytes.len(), want.len()));
                            }
                            rep.c("channels_compared_real_process", 1);
                            rep.c("bytes_compared_real_process", want.len() as u64);
                        }
                    }
                }
                if t.exit_code != 0 {
                    rep.c("failed_tasks_read_back", 1);
                }
            }
            let (r, bytes) = capture_stdout(&cap, || log.export(&ExportOpts { job: 1.into(), task: None }));
            if r.is_ok() {
                if let Ok(serde_json::Value::Array(items)) = serde_json::from_slice::<serde_json::Value>(&bytes) {
                    for item in items {
                        if item["finished"].as_bool() != Some(true) {
                            rep.v("C19", "S4-finished-task-not-marked-finished", format!("task {:?}: export says finished={:?}", item["id"], item["finished"]));
                        }
                    }
                }
            }
            let s = log.summary();
            if s.n_opened != 0 || s.n_tasks != case.tasks.len() as u64 {
                rep.v("C19", "S5-summary", format!("summary: {} tasks ({} expected), {} open streams", s.n_tasks, case.tasks.len(), s.n_opened));
            }
        }
    }
    rep
}

pub fn main(args: &[String]) -> i32 {
    let a = Args::parse(args);
    let prop = a.get("prop").unwrap_or("C19").to_string();
    let seed = a.u64("seed", 1);
    let shard = a.u64("shard", 0);
    let max_runs = a.u64("runs", 1000);
    let secs = a.u64("secs", 30);
    let out = a.get("out").unwrap_or("/dev/stdout").to_string();
    let replay_dir = a.get("replays").unwrap_or("/verif/replays").to_string();
    let only_regress = a.get("only-regress").is_some();
    let start = Instant::now();
    let deadline = start + Duration::from_secs(secs);
    let tmp = PathBuf::from(std::env::var("HQV_TMP").unwrap_or_else(|_| "/tmp".into())).join(format!("hqv-launch-{}", std::process::id()));
    std::fs::create_dir_all(&tmp).unwrap();
    let mut runs = 0u64;
    let mut held = 0u64;
    let mut violated = 0u64;
    let mut steps = 0u64;
    let mut cov: BTreeMap<String, u64> = BTreeMap::new();
    let mut hashes: BTreeSet<u64> = BTreeSet::new();
    let mut violations = Vec::new();
    let mut seen = BTreeSet::new();
    let mut samples = Vec::new();
    let mut inconclusive: BTreeMap<String, u64> = BTreeMap::new();
    let mut regress: Vec<Case> = Vec::new();
    if shard == 0 {
        if let Some(dir) = a.get("regress") {
            let mut files: Vec<_> = std::fs::read_dir(dir).map(|d| d.filter_map(|e| e.ok()).map(|e| e.path()).collect()).unwrap_or_default();
            files.sort();
            for f in files {
                if !f.file_name().unwrap().to_string_lossy().starts_with(&prop) {
                    continue;
                }
                if let Ok(v) = serde_json::from_str::<serde_json::Value>(&std::fs::read_to_string(&f).unwrap_or_default()) {
                    if let Ok(c) = serde_json::from_value::<Case>(v["case"]["launch"].clone()) {
                        regress.push(c);
                    }
                }
            }
        }
    }
    let n_regress = regress.len();
    let mut regress = regress.into_iter();
    let mut i = 0u64;
    while i < max_runs && Instant::now() < deadline {
        let s = rng::hash3(seed, shard ^ 0x1a, i);
        i += 1;
        let next = regress.next();
        if next.is_none() && only_regress {
            break;
        }
        let case = next.unwrap_or_else(|| gen_case(s));
        runs += 1;
        steps += case.tasks.len() as u64;
        let _ = crate::panics::take();
        let rt = tokio::runtime::Builder::new_current_thread().enable_all().build().unwrap();
        let local = tokio::task::LocalSet::new();
        let r = std::panic::catch_unwind(std::panic::AssertUnwindSafe(|| local.block_on(&rt, run_case(&case, &tmp))));
        drop(local);
        drop(rt);
        let panicked = crate::panics::take();
        let rep = match r {
            Ok(rep) if panicked.is_empty() => rep,
            _ => {
                *inconclusive.entry("panic (judged by C09)".into()).or_insert(0) += 1;
                continue;
            }
        };
        if let Some(why) = &rep.inconclusive {
            *inconclusive.entry(why.chars().take(60).collect()).or_insert(0) += 1;
            continue;
        }
        for (k, n) in &rep.cov {
            *cov.entry(k.clone()).or_insert(0) += n;
        }
        let mine: Vec<_> = rep.violations.iter().filter(|v| v.0 == prop).collect();
        if mine.is_empty() {
            held += 1;
        } else {
            violated += 1;
            for (_, rule, detail) in mine {
                if seen.insert(rule.clone()) {
                    let path = save_replay_value(&replay_dir, &prop, rule, s, &json!({"launch": case}));
                    violations.push(json!({"signature": rule, "detail": detail, "seed": s, "source": "generated", "replay": path}));
                }
            }
        }
        hashes.insert(rng::mix(s ^ 0x1a));
        if samples.len() < 1 {
            samples.push(json!({"seed": s, "workers": case.workers, "tasks_head": case.tasks.iter().take(5).collect::<Vec<_>>(), "observed": rep.cov}));
        }
    }
    let _ = std::fs::remove_dir_all(&tmp);
    let minima = if prop == "C04" { json!({"environments_compared": 40, "resource_label_sets_compared": 60, "gpu_label_sets_compared": 5}) } else { json!({"channels_compared_real_process": 150, "failed_tasks_read_back": 8}) };
    let summary = json!({
        "prop": prop, "shard": shard, "seed": seed, "runs": runs, "steps": steps,
        "verdicts": {"held": held, "violated": violated},
        "inconclusive": inconclusive,
        "nontrivial": hashes.len(),
        "hashes": hashes.iter().collect::<Vec<_>>(),
        "coverage": cov,
        "violations": violations,
        "samples": samples,
        "regress_replayed": n_regress,
        "rule": "launcher lab: jobs of 4-18 tasks with individual resource requests (fractions, scatter/tight, all, gpus, sum resource) are submitted through the real client loop, scheduled by the real core and run as real `sh` processes by the real WorkerState + HqTaskLauncher (1-2 workers, real time, real pipes); every task dumps its environment and writes known bytes to stdout/stderr (0-300 small interleaved writes, a final block of 0 B - 200 KB incl. exactly 16 KiB and 16 KiB + 1, some tasks exit with an error); non-trivial = the job ended and its tasks were read back",
        "minima": minima,
        "assumptions": [
            "launcher lab: server side and transport are those of the cluster simulation (in-memory links, harness-driven delivery), but time is real and the tasks are real processes",
            "launcher lab: the allocation a task holds is read from the worker state while the task runs; a task that ends before it was sampled is counted, not judged (A7)",
            "launcher lab: no worker is lost here; superseded instances and cut files are the E6 lab's business"
        ],
        "wall_s": start.elapsed().as_secs_f64(),
    });
    std::fs::write(&out, serde_json::to_string(&summary).unwrap()).unwrap();
    0
}
