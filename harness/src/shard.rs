//! Shard runner for the E1 based checks: runs simulation runs for one property until the run or
//! time budget is used up and writes one JSON summary.

use std::collections::{BTreeMap, BTreeSet};
use std::time::{Duration, Instant};

use serde_json::json;

use crate::sim::r#gen::Profile;
use crate::sim::run::{Outcome, RunResult, Source};
use crate::sim::types::{Action, Obs};
use crate::{failure_signature, minimize, panics, rng, run_in_runtime};

pub struct Args {
    pub map: BTreeMap<String, String>,
}

impl Args {
    pub fn parse(args: &[String]) -> Args {
        let mut map = BTreeMap::new();
        let mut i = 0;
        while i < args.len() {
            if let Some(k) = args[i].strip_prefix("--") {
                let v = args.get(i + 1).cloned().unwrap_or_default();
                map.insert(k.to_string(), v);
                i += 2;
            } else {
                i += 1;
            }
        }
        Args { map }
    }
    pub fn get(&self, k: &str) -> Option<&str> {
        self.map.get(k).map(|s| s.as_str())
    }
    pub fn u64(&self, k: &str, d: u64) -> u64 {
        self.get(k).and_then(|s| s.parse().ok()).unwrap_or(d)
    }
}

/// Is this run non-trivial for the property (did it contain the events the property is about)?
fn nontrivial(prop: &str, r: &RunResult) -> bool {
    let c = |k: &str| r.monitors.coverage.get(k).copied().unwrap_or(0);
    let prefix = |p: &str| {
        r.monitors
            .coverage
            .iter()
            .filter(|(k, _)| k.starts_with(p))
            .map(|(_, v)| *v)
            .sum::<u64>()
    };
    match prop {
        "C01" => prefix("terminal.") > 0,
        "C02" => c("quiescent") > 0 && prefix("terminal.") > 0,
        "C03" => c("dep.tasks_with_deps") > 0,
        "C04" => c("ledger.open_executions_checked") > 0,
        "C05" => c("placement.checked") > 0,
        "C06" => c("retract.sent") > 0 || c("reexecution") > 0,
        "C07" => c("loss.with_running") > 0,
        "C08" => c("cancel.effective") > 0,
        "C09" => r.n_steps > 0,
        "C13" => c("submit.accepted") > 0,
        "C14" => c("maxfails.crossings") > 0,
        _ => true,
    }
}

fn verdict(prop: &str, r: &RunResult) -> (&'static str, String) {
    let mine: Vec<_> = r.violations.iter().filter(|v| v.prop == prop).collect();
    if !mine.is_empty() {
        // the scheduler's solver has a wall-clock limit (5 s); a run in which it fired did not
        // happen in virtual time and cannot be replayed, so whatever it shows decides nothing
        let limited = r.monitors.coverage.get("sched.result.1").copied().unwrap_or(0) + r.monitors.coverage.get("sched.result.2").copied().unwrap_or(0);
        if limited > 0 {
            return ("inconclusive", "solver-hit-its-wall-clock-limit".into());
        }
        return ("violated", mine[0].rule.clone());
    }
    match &r.outcome {
        Outcome::RepoPanic => {
            if prop == "C09" {
                (
                    "violated",
                    r.panics
                        .first()
                        .map(panics::signature)
                        .unwrap_or_else(|| "panic".into()),
                )
            } else {
                ("inconclusive", "repo-panic".into())
            }
        }
        Outcome::HarnessError(e) => ("inconclusive", format!("harness-error:{}", e.chars().take(60).collect::<String>())),
        Outcome::NoQuiescence => {
            if prop == "C02" {
                ("inconclusive", "no-quiescence".into())
            } else {
                ("held", String::new())
            }
        }
        Outcome::Quiescent => ("held", String::new()),
    }
}

fn compact_sample(r: &RunResult) -> serde_json::Value {
    let actions: Vec<String> = r
        .actions
        .iter()
        .take(60)
        .map(|a| {
            let s = serde_json::to_string(a).unwrap();
            if s.len() > 160 { format!("{}…", &s[..160]) } else { s }
        })
        .collect();
    let events: Vec<String> = r
        .log
        .iter()
        .filter_map(|(step, o)| match o {
            Obs::Journal(e) => {
                let s = serde_json::to_string(e).unwrap();
                Some(format!("{step}:{}", if s.len() > 100 { format!("{}…", &s[..100]) } else { s }))
            }
            _ => None,
        })
        .take(80)
        .collect();
    json!({"seed": r.seed, "n_actions": r.actions.len(), "outcome": format!("{:?}", r.outcome), "actions_head": actions, "journal_events_head": events})
}

/// The last observations of a run, kept next to a witness so that a run that does not replay
/// the same way (real time leaking in) can still be read.
pub fn obs_tail(r: &RunResult, n: usize) -> Vec<String> {
    let from = r.log.len().saturating_sub(n);
    r.log[from..]
        .iter()
        .map(|(step, o)| {
            let s = serde_json::to_string(o).unwrap_or_default();
            format!("{step} {}", if s.len() > 300 { format!("{}…", s.chars().take(300).collect::<String>()) } else { s })
        })
        .collect()
}

pub fn save_replay_with_tail(dir: &str, prop: &str, sig: &str, seed: u64, actions: &[Action], tail: &[String], note: &str) -> String {
    std::fs::create_dir_all(dir).ok();
    let clean: String = sig
        .chars()
        .map(|c| if c.is_ascii_alphanumeric() || c == '-' { c } else { '_' })
        .take(60)
        .collect();
    let path = format!("{dir}/{prop}-{clean}-{seed}.json");
    let _ = std::fs::write(
        &path,
        serde_json::to_string(&json!({"prop": prop, "signature": sig, "actions": actions, "note": note, "last_observations_of_the_original_run": tail})).unwrap(),
    );
    path
}

pub fn save_replay(dir: &str, prop: &str, sig: &str, seed: u64, actions: &[Action]) -> String {
    std::fs::create_dir_all(dir).ok();
    let clean: String = sig
        .chars()
        .map(|c| if c.is_ascii_alphanumeric() || c == '-' { c } else { '_' })
        .take(60)
        .collect();
    let path = format!("{dir}/{prop}-{clean}-{seed}.json");
    let _ = std::fs::write(
        &path,
        serde_json::to_string(&json!({"prop": prop, "signature": sig, "actions": actions})).unwrap(),
    );
    path
}

pub fn save_replay_value(dir: &str, prop: &str, sig: &str, seed: u64, case: &serde_json::Value) -> String {
    std::fs::create_dir_all(dir).ok();
    let clean: String = sig
        .chars()
        .map(|c| if c.is_ascii_alphanumeric() || c == '-' { c } else { '_' })
        .take(60)
        .collect();
    let path = format!("{dir}/{prop}-{clean}-{seed}.json");
    let _ = std::fs::write(&path, serde_json::to_string(&json!({"prop": prop, "signature": sig, "case": case})).unwrap());
    path
}

pub fn main(args: &[String]) -> i32 {
    let a = Args::parse(args);
    let prop = a.get("prop").unwrap_or("C09").to_string();
    let seed = a.u64("seed", 1);
    let shard = a.u64("shard", 0);
    let max_runs = a.u64("runs", 100);
    let secs = a.u64("secs", 30);
    let out = a.get("out").unwrap_or("/dev/stdout").to_string();
    let replay_dir = a.get("replays").unwrap_or("/verif/replays").to_string();
    let regress_dir = a.get("regress").map(|s| s.to_string());
    let do_minimize = a.u64("minimize", 1) == 1;
    // signatures of listed known findings: their witnesses are in regress/ already, minimizing
    // them again in every shard only costs time
    let no_minimize: BTreeSet<String> = a.get("known").map(|s| s.split(',').map(|x| x.to_string()).collect()).unwrap_or_default();
    let profile = Profile::for_property(&prop);
    let start = Instant::now();
    let deadline = start + Duration::from_secs(secs);

    let mut runs = 0u64;
    let mut verdicts: BTreeMap<String, u64> = BTreeMap::new();
    let mut inconclusive: BTreeMap<String, u64> = BTreeMap::new();
    let mut coverage: BTreeMap<String, u64> = BTreeMap::new();
    let mut hashes: BTreeSet<u64> = BTreeSet::new();
    let mut n_nontrivial = 0u64;
    let mut violations: Vec<serde_json::Value> = Vec::new();
    let mut seen_sigs: BTreeSet<String> = BTreeSet::new();
    let mut samples: Vec<serde_json::Value> = Vec::new();
    let mut total_steps = 0u64;
    let mut n_regress = 0u64;

    let mut inconclusive_witnesses: Vec<serde_json::Value> = Vec::new();
    let mut handle = |r: RunResult, source: &str, violations: &mut Vec<serde_json::Value>| {
        let (v, why) = verdict(&prop, &r);
        *verdicts.entry(v.to_string()).or_insert(0) += 1;
        if v == "inconclusive" {
            *inconclusive.entry(why.clone()).or_insert(0) += 1;
            // a panic in repository code belongs to C09, but its witness is worth keeping
            if why == "repo-panic" && inconclusive_witnesses.len() < 3 {
                let sig = r.panics.first().map(panics::signature).unwrap_or_else(|| "panic".into());
                let path = save_replay(&replay_dir, "C09", &format!("seen-by-{prop}-{sig}"), r.seed, &r.actions);
                inconclusive_witnesses.push(json!({"signature": sig, "replay": path}));
            }
        }
        total_steps += r.n_steps as u64;
        for (k, n) in &r.monitors.coverage {
            *coverage.entry(k.clone()).or_insert(0) += n;
        }
        if nontrivial(&prop, &r) && v != "inconclusive" {
            n_nontrivial += 1;
            hashes.insert(r.monitors.history_hash);
            if samples.len() < 2 {
                samples.push(compact_sample(&r));
            }
        }
        let mut v = v;
        if v == "violated" && r.panics.is_empty() {
            // A violation counts only if its witness shows it again: the simulation runs in virtual
            // time and is deterministic, so a run that cannot be repeated was shaped by something
            // outside the model (wall clock). Three attempts, then the run decides nothing.
            let mut again = false;
            for _ in 0..3 {
                let rr = run_in_runtime(
                    Source::Replay {
                        actions: r.actions.clone(),
                        profile: profile.clone(),
                    },
                    true,
                );
                if rr.violations.iter().any(|x| x.prop == prop) || (prop == "C09" && !rr.panics.is_empty()) {
                    again = true;
                    break;
                }
            }
            if !again {
                let sig = r.violations.iter().find(|x| x.prop == prop).map(|x| x.rule.clone()).unwrap_or_default();
                let path = save_replay_with_tail(
                    &replay_dir,
                    &prop,
                    &format!("unreproduced-{sig}"),
                    r.seed,
                    &r.actions,
                    &obs_tail(&r, 80),
                    "the monitors reported this signature in the original run, three replays of the same actions did not show any violation of the property",
                );
                *verdicts.entry("violated".to_string()).or_insert(0) -= 1;
                *verdicts.entry("inconclusive".to_string()).or_insert(0) += 1;
                *inconclusive.entry(format!("violation-not-reproduced-on-replay:{sig}")).or_insert(0) += 1;
                if inconclusive_witnesses.len() < 6 {
                    inconclusive_witnesses.push(json!({"signature": format!("unreproduced-{sig}"), "replay": path}));
                }
                v = "inconclusive";
            }
        }
        if v == "violated" {
            // all violations of this property in the run
            let mut sigs: Vec<(String, String)> = r
                .violations
                .iter()
                .filter(|x| x.prop == prop)
                .map(|x| (x.rule.clone(), x.detail.clone()))
                .collect();
            if prop == "C09" {
                for p in &r.panics {
                    sigs.push((panics::signature(p), format!("{}:{} {}", p.file, p.line, p.message)));
                }
            }
            for (sig, detail) in sigs {
                if !seen_sigs.insert(sig.clone()) {
                    continue;
                }
                let full_sig = if prop == "C09" && sig.starts_with("crates/") {
                    format!("panic:{sig}")
                } else {
                    format!("viol:{prop}:{sig}")
                };
                let actions = if do_minimize && !no_minimize.contains(&sig) && failure_signature(&r).as_deref() == Some(full_sig.as_str()) && Instant::now() < deadline + Duration::from_secs(60) {
                    minimize(r.actions.clone(), &profile, &full_sig)
                } else {
                    r.actions.clone()
                };
                let path = save_replay_with_tail(&replay_dir, &prop, &sig, r.seed, &actions, &obs_tail(&r, 40), "");
                violations.push(json!({"signature": sig, "detail": detail, "seed": r.seed, "source": source, "replay": path, "n_actions": actions.len()}));
            }
        }
    };

    // regression corpus first (shard 0 only)
    if shard == 0 {
        if let Some(dir) = &regress_dir {
            let mut files: Vec<_> = std::fs::read_dir(dir)
                .map(|d| d.filter_map(|e| e.ok()).map(|e| e.path()).collect())
                .unwrap_or_default();
            files.sort();
            for f in files {
                let name = f.file_name().unwrap().to_string_lossy().to_string();
                if !name.ends_with(".json") || !(prop == "C09" || name.starts_with(&prop)) {
                    continue;
                }
                let Ok(text) = std::fs::read_to_string(&f) else { continue };
                let Ok(v) = serde_json::from_str::<serde_json::Value>(&text) else { continue };
                let Ok(actions) = serde_json::from_value::<Vec<Action>>(v["actions"].clone()) else { continue };
                let p = v["prop"].as_str().unwrap_or(&prop).to_string();
                let r = run_in_runtime(
                    Source::Replay {
                        actions,
                        profile: Profile::for_property(&p),
                    },
                    true,
                );
                runs += 1;
                n_regress += 1;
                handle(r, &format!("regress:{name}"), &mut violations);
            }
        }
    }

    let mut i = 0u64;
    while i < max_runs && Instant::now() < deadline {
        let s = rng::hash3(seed, shard, i);
        let r = run_in_runtime(
            Source::Generate {
                seed: s,
                profile: profile.clone(),
            },
            true,
        );
        runs += 1;
        i += 1;
        handle(r, "generated", &mut violations);
    }

    let summary = json!({
        "prop": prop,
        "shard": shard,
        "seed": seed,
        "runs": runs,
        "steps": total_steps,
        "verdicts": verdicts,
        "inconclusive": inconclusive,
        "extra": {"witnesses of inconclusive runs (repository panics seen here are judged by C09; `unreproduced-*` did not show again on replay)": inconclusive_witnesses},
        "nontrivial": n_nontrivial,
        "hashes": hashes.iter().collect::<Vec<_>>(),
        "coverage": coverage,
        "violations": violations,
        "samples": samples,
        "regress_replayed": n_regress,
        "wall_s": start.elapsed().as_secs_f64(),
    });
    std::fs::write(&out, serde_json::to_string(&summary).unwrap()).unwrap();
    0
}
