//! E6 — stream lab (C19): the real worker-side `StreamerRef`/`StreamSender` writer and the real
//! `OutputLog` reader at the CLI boundary (`cat`, `export`, `summary`; fd 1 is redirected into a
//! file, so the bytes compared are what `hq output-log` would print).

use std::collections::{BTreeMap, BTreeSet};
use std::io::Write;
use std::os::fd::AsRawFd;
use std::path::{Path, PathBuf};
use std::time::{Duration, Instant};

use hyperqueue::client::commands::outputlog::{CatOpts, Channel, ExportOpts};
use hyperqueue::stream::reader::outputlog::OutputLog;
use hyperqueue::worker::streamer::{StreamSender, StreamerRef};
use serde_json::json;
use tako::{InstanceId, TaskId, WorkerId};

use crate::rng::{self, Rng};
use crate::shard::{Args, save_replay_value};

#[derive(Clone, Debug, serde::Serialize, serde::Deserialize)]
pub struct InstanceSpec {
    pub task: (u32, u32),
    pub instance: u32,
    pub worker: u32,
    /// chunk sizes per channel (stdout, stderr), in write order; the data is derived
    pub chunks: [Vec<u32>; 2],
    /// write the end markers (false = the worker died before the task ended)
    pub ended: bool,
    /// a superseded instance on a worker the server lost contact with: it keeps writing
    /// while the next instance already runs on another worker
    #[serde(default)]
    pub zombie: bool,
}

#[derive(Clone, Debug, serde::Serialize, serde::Deserialize)]
pub struct Case {
    pub instances: Vec<InstanceSpec>,
    /// global order of send operations: index into `instances`
    pub order_seed: u64,
    /// workers whose stream file is cut short (fraction in per mille of the file length)
    pub crashed: Vec<(u32, u32)>,
}

/// Recognisable content: every byte depends on (task, instance, channel, offset).
fn content(task: (u32, u32), instance: u32, channel: u32, offset: u64, len: usize) -> Vec<u8> {
    let tag = format!("<j{}t{}i{}c{}>", task.0, task.1, instance, channel).into_bytes();
    (0..len)
        .map(|k| {
            let o = offset + k as u64;
            if (o as usize % 64) < tag.len() {
                tag[o as usize % 64]
            } else {
                b'a' + ((o / 64 + o) % 26) as u8
            }
        })
        .collect()
}

pub fn gen_case(seed: u64) -> Case {
    let mut rng = Rng::new(seed);
    let n_jobs = rng.range(1, 2) as u32;
    let n_workers = rng.range(1, 4) as u32;
    let mut instances = Vec::new();
    let mut crashed_workers: BTreeSet<u32> = BTreeSet::new();
    // workers 100.. are "crashing" workers: they only ever hold superseded instances
    let n_crashing = rng.range(0, 2) as u32;
    for job in 1..=n_jobs {
        let n_tasks = rng.range(1, 8) as u32;
        let (stride, first) = (rng.range(1, 3) as u32, rng.below(3) as u32);
        for t in 0..n_tasks {
            let task = (job, first + t * stride);
            let n_inst = if rng.chance(35, 100) { rng.range(2, 3) as u32 } else { 1 };
            let mut inst_ids: Vec<u32> = Vec::new();
            let mut next = rng.below(2) as u32;
            for _ in 0..n_inst {
                inst_ids.push(next);
                next += rng.range(1, 2) as u32;
            }
            for (k, inst) in inst_ids.iter().enumerate() {
                let last = k + 1 == inst_ids.len();
                let worker = if !last && n_crashing > 0 && rng.chance(50, 100) {
                    let w = 100 + rng.below(n_crashing as u64) as u32;
                    crashed_workers.insert(w);
                    w
                } else {
                    1 + rng.below(n_workers as u64) as u32
                };
                let gen_chunks = |rng: &mut Rng| -> Vec<u32> {
                    let n = match rng.below(10) {
                        0 => 0,
                        1 => rng.range(130, 200),
                        _ => rng.range(1, 12),
                    };
                    (0..n)
                        .map(|_| match rng.below(12) {
                            0 => 1,
                            1 => 16 * 1024,
                            2 => 16 * 1024 - 1,
                            3 => rng.range(2, 9) as u32,
                            4 => 4096,
                            _ => rng.range(1, 700) as u32,
                        })
                        .collect()
                };
                instances.push(InstanceSpec {
                    task,
                    instance: *inst,
                    worker,
                    chunks: [gen_chunks(&mut rng), gen_chunks(&mut rng)],
                    ended: last || rng.chance(50, 100),
                    zombie: !last && rng.chance(30, 100),
                });
            }
        }
    }
    let mut crashed = Vec::new();
    for w in crashed_workers {
        if rng.chance(70, 100) {
            crashed.push((w, rng.range(0, 1000) as u32));
        }
    }
    Case { instances, order_seed: rng.next_u64(), crashed }
}

/// Writes the case with the real streamers. Returns the per worker stream file.
async fn write_case(case: &Case, dir: &Path) -> Result<BTreeMap<u32, PathBuf>, String> {
    let mut streamers: BTreeMap<u32, StreamerRef> = BTreeMap::new();
    let mut files: BTreeMap<u32, PathBuf> = BTreeMap::new();
    let mut rng = Rng::new(case.order_seed);
    // instances of one task run one after another (a task has one live execution): the write
    // operations of different TASKS interleave, those of one task are in instance order
    struct Cursor {
        sender: Option<StreamSender>,
        pos: [usize; 2],
        off: [u64; 2],
        done: bool,
    }
    let mut by_task: BTreeMap<(u32, u32), Vec<usize>> = BTreeMap::new();
    for (i, s) in case.instances.iter().enumerate() {
        by_task.entry(s.task).or_default().push(i);
    }
    let mut cursors: Vec<Cursor> = case.instances.iter().map(|_| Cursor { sender: None, pos: [0, 0], off: [0, 0], done: false }).collect();
    let mut started: Vec<bool> = vec![false; case.instances.len()];
    loop {
        // eligible: not done, and every earlier instance of the task is done - or is a started
        // zombie on another worker
        let mut active: Vec<usize> = Vec::new();
        for list in by_task.values() {
            for (k, &i) in list.iter().enumerate() {
                if cursors[i].done {
                    continue;
                }
                let ok = list[..k].iter().all(|&j| cursors[j].done || (case.instances[j].zombie && started[j] && case.instances[j].worker != case.instances[i].worker));
                if ok {
                    active.push(i);
                }
            }
        }
        if active.is_empty() {
            break;
        }
        let i = *rng.pick(&active);
        started[i] = true;
        let spec = &case.instances[i];
        let c = &mut cursors[i];
        if c.sender.is_none() {
            let sref = streamers.entry(spec.worker).or_insert_with(|| StreamerRef::new("hqvuid", WorkerId::new(spec.worker))).clone();
            let before: BTreeSet<PathBuf> = std::fs::read_dir(dir).map(|d| d.filter_map(|e| e.ok()).map(|e| e.path()).collect()).unwrap_or_default();
            let s = sref
                .get_mut()
                .get_stream(&sref, dir, TaskId::new(spec.task.0.into(), spec.task.1.into()), InstanceId::new(spec.instance))
                .map_err(|e| format!("get_stream: {e:?}"))?;
            c.sender = Some(s);
            if !files.contains_key(&spec.worker) {
                // let the writer task create its file
                for _ in 0..50 {
                    tokio::task::yield_now().await;
                    tokio::time::sleep(Duration::from_millis(1)).await;
                    let now: BTreeSet<PathBuf> = std::fs::read_dir(dir).map(|d| d.filter_map(|e| e.ok()).map(|e| e.path()).collect()).unwrap_or_default();
                    if let Some(p) = now.difference(&before).next() {
                        files.insert(spec.worker, p.clone());
                        break;
                    }
                }
            }
        }
        let sender = c.sender.as_ref().unwrap().clone();
        // next operation of this instance: a chunk of a random channel that still has chunks,
        // then the end markers
        let chans: Vec<usize> = (0..2).filter(|ch| c.pos[*ch] < spec.chunks[*ch].len()).collect();
        if !chans.is_empty() {
            let ch = *rng.pick(&chans);
            let len = spec.chunks[ch][c.pos[ch]] as usize;
            let data = content(spec.task, spec.instance, ch as u32, c.off[ch], len);
            sender.send_data(ch as u32, data).await.map_err(|e| format!("send_data: {e:?}"))?;
            c.pos[ch] += 1;
            c.off[ch] += len as u64;
        } else {
            if spec.ended {
                // the real launcher closes each piped channel with an empty chunk, then flushes
                sender.send_data(0, Vec::new()).await.map_err(|e| format!("send_data: {e:?}"))?;
                sender.send_data(1, Vec::new()).await.map_err(|e| format!("send_data: {e:?}"))?;
                sender.flush().await.map_err(|e| format!("flush: {e:?}"))?;
            }
            c.done = true;
            c.sender = None;
        }
        if rng.chance(10, 100) {
            tokio::task::yield_now().await;
        }
    }
    // make sure everything is on disk: flush every worker's stream through a last sender
    for (w, sref) in &streamers {
        let s = sref.get_mut().get_stream(sref, dir, TaskId::new(9999.into(), 0.into()), InstanceId::new(0)).map_err(|e| format!("{e:?}"))?;
        // (no data is sent through it: it only carries the flush)
        s.flush().await.map_err(|e| format!("final flush of worker {w}: {e:?}"))?;
    }
    drop(cursors);
    drop(streamers);
    for _ in 0..20 {
        tokio::task::yield_now().await;
    }
    Ok(files)
}

pub fn capture_stdout<T>(path: &Path, f: impl FnOnce() -> T) -> (T, Vec<u8>) {
    let _ = std::io::stdout().flush();
    let file = std::fs::File::create(path).unwrap();
    let r;
    unsafe {
        let saved = libc::dup(1);
        assert!(saved >= 0);
        assert!(libc::dup2(file.as_raw_fd(), 1) >= 0);
        r = f();
        let _ = std::io::stdout().flush();
        assert!(libc::dup2(saved, 1) >= 0);
        libc::close(saved);
    }
    drop(file);
    let bytes = std::fs::read(path).unwrap_or_default();
    (r, bytes)
}

pub struct Rep {
    pub violations: Vec<(String, String)>,
    pub cov: BTreeMap<String, u64>,
}

impl Rep {
    fn v(&mut self, rule: &str, detail: String) {
        if !self.violations.iter().any(|x| x.0 == rule) {
            self.violations.push((rule.into(), detail));
        }
    }
    fn c(&mut self, k: &str, n: u64) {
        *self.cov.entry(k.to_string()).or_insert(0) += n;
    }
}

fn expected_bytes(spec: &InstanceSpec, ch: usize) -> Vec<u8> {
    let total: u64 = spec.chunks[ch].iter().map(|x| *x as u64).sum();
    content(spec.task, spec.instance, ch as u32, 0, total as usize)
}

fn describe_diff(got: &[u8], want: &[u8]) -> String {
    let n = got.iter().zip(want.iter()).take_while(|(a, b)| a == b).count();
    let show = |b: &[u8]| String::from_utf8_lossy(&b[n.min(b.len())..(n + 48).min(b.len())]).to_string();
    format!("lengths {} vs expected {}, first difference at byte {n}: got {:?}, expected {:?}", got.len(), want.len(), show(got), show(want))
}

fn read_and_check(case: &Case, dir: &Path, cap: &Path, rep: &mut Rep, label: &str) {
    let mut log = match OutputLog::open(dir, None) {
        Ok(l) => l,
        Err(e) => {
            if case.instances.is_empty() {
                return;
            }
            rep.v("S0-open-failed", format!("{label}: {e:?}"));
            return;
        }
    };
    let mut by_task: BTreeMap<(u32, u32), Vec<&InstanceSpec>> = BTreeMap::new();
    for s in &case.instances {
        by_task.entry(s.task).or_default().push(s);
    }
    for v in by_task.values_mut() {
        v.sort_by_key(|s| s.instance);
    }
    let crashed: BTreeSet<u32> = case.crashed.iter().map(|c| c.0).collect();
    // per task: cat stdout / stderr
    for (task, insts) in &by_task {
        let last = insts.last().unwrap();
        for (ch, channel) in [(0usize, Channel::Stdout), (1usize, Channel::Stderr)] {
            let opts = CatOpts { job: task.0.into(), channel, task: Some(crate::sim::conv::int_array(&[task.1])), allow_unfinished: false };
            let (r, bytes) = capture_stdout(cap, || log.cat(&opts));
            let want = expected_bytes(last, ch);
            match r {
                Err(e) => rep.v("S1-cat-fails-for-finished-task", format!("{label}: task {task:?} channel {ch}: {e}")),
                Ok(()) => {
                    if bytes != want {
                        // does it contain bytes of another instance?
                        let mixed = insts.iter().any(|i| i.instance != last.instance && {
                            let tag = format!("i{}c", i.instance);
                            String::from_utf8_lossy(&bytes).contains(&tag)
                        });
                        rep.v(
                            if mixed { "S2-output-of-earlier-execution-mixed-in" } else { "S1-bytes-differ" },
                            format!("{label}: task {task:?} (instances {:?}, last on worker {}) channel {ch}: {}", insts.iter().map(|i| i.instance).collect::<Vec<_>>(), last.worker, describe_diff(&bytes, &want)),
                        );
                    }
                    rep.c("channels_compared", 1);
                    rep.c("bytes_compared", want.len() as u64);
                    if want.is_empty() {
                        rep.c("empty_channels", 1);
                    }
                }
            }
        }
        if insts.len() > 1 {
            rep.c("tasks_with_superseded_instances", 1);
        }
    }
    // export (stdout of all tasks of a job as JSON)
    let jobs: BTreeSet<u32> = by_task.keys().map(|t| t.0).collect();
    for job in jobs {
        let (r, bytes) = capture_stdout(cap, || log.export(&ExportOpts { job: job.into(), task: None }));
        if let Err(e) = r {
            rep.v("S3-export-fails", format!("{label}: job {job}: {e}"));
            continue;
        }
        match serde_json::from_slice::<serde_json::Value>(&bytes) {
            Ok(serde_json::Value::Array(items)) => {
                let tasks: Vec<_> = by_task.iter().filter(|(t, _)| t.0 == job).collect();
                if items.len() != tasks.len() {
                    rep.v("S3-export-task-count", format!("{label}: job {job}: exported {} tasks, expected {}", items.len(), tasks.len()));
                }
                for ((task, insts), item) in tasks.iter().zip(items.iter()) {
                    let last = insts.last().unwrap();
                    let want = String::from_utf8(expected_bytes(last, 0)).unwrap();
                    if item["id"].as_u64() != Some(task.1 as u64) || item["stdout"].as_str() != Some(want.as_str()) {
                        rep.v("S3-export-differs", format!("{label}: task {task:?}: exported id {:?}, stdout length {:?}, expected length {}", item["id"], item["stdout"].as_str().map(|s| s.len()), want.len()));
                    }
                    if item["finished"].as_bool() != Some(true) {
                        rep.v("S4-finished-task-not-marked-finished", format!("{label}: task {task:?}: export says finished={:?}", item["finished"]));
                    }
                }
                rep.c("exports", 1);
            }
            _ => rep.v("S3-export-not-json", format!("{label}: job {job}")),
        }
    }
    // summary: superseded instances are counted, never mixed
    let s = log.summary();
    let n_tasks = by_task.len() as u64;
    // an instance that wrote no chunk and no end marker leaves no trace in any file
    let n_streams: u64 = case.instances.iter().filter(|i| i.ended || !i.chunks[0].is_empty() || !i.chunks[1].is_empty()).count() as u64;
    // an instance whose file was cut before its first chunk is invisible - only possible for crashed workers
    let invisible_possible: u64 = case.instances.iter().filter(|i| crashed.contains(&i.worker) && (i.ended || !i.chunks[0].is_empty() || !i.chunks[1].is_empty())).count() as u64;
    // the final-flush carrier stream (job 9999) writes nothing, so it must not appear
    if s.n_tasks != n_tasks {
        rep.v("S5-summary-task-count", format!("{label}: summary has {} tasks, expected {n_tasks}", s.n_tasks));
    }
    if s.n_streams > n_streams || s.n_streams + invisible_possible < n_streams {
        rep.v("S5-summary-stream-count", format!("{label}: summary has {} streams, expected {n_streams} (up to {invisible_possible} may be cut away)", s.n_streams));
    }
    if s.n_superseded != s.n_streams - s.n_tasks {
        rep.v("S5-summary-superseded-count", format!("{label}: n_superseded {} with {} streams of {} tasks", s.n_superseded, s.n_streams, s.n_tasks));
    }
    if s.n_opened != 0 {
        rep.v("S4-finished-task-not-marked-finished", format!("{label}: summary reports {} open streams although every task ended", s.n_opened));
    }
    let want_out: u64 = by_task.values().map(|v| v.last().unwrap().chunks[0].iter().map(|x| *x as u64).sum::<u64>()).sum();
    let want_err: u64 = by_task.values().map(|v| v.last().unwrap().chunks[1].iter().map(|x| *x as u64).sum::<u64>()).sum();
    if s.stdout_size != want_out || s.stderr_size != want_err {
        rep.v("S5-summary-sizes", format!("{label}: summary sizes {}/{} expected {want_out}/{want_err}", s.stdout_size, s.stderr_size));
    }
    if case.crashed.is_empty() {
        let sup_out: u64 = by_task.values().map(|v| v[..v.len() - 1].iter().map(|i| i.chunks[0].iter().map(|x| *x as u64).sum::<u64>()).sum::<u64>()).sum();
        let sup_err: u64 = by_task.values().map(|v| v[..v.len() - 1].iter().map(|i| i.chunks[1].iter().map(|x| *x as u64).sum::<u64>()).sum::<u64>()).sum();
        if s.superseded_stdout_size != sup_out || s.superseded_stderr_size != sup_err {
            rep.v("S5-summary-superseded-sizes", format!("{label}: superseded sizes {}/{} expected {sup_out}/{sup_err}", s.superseded_stdout_size, s.superseded_stderr_size));
        }
    }
    rep.c("directories_read", 1);
}

pub async fn run_case(case: &Case, base: &Path, rng: &mut Rng) -> Rep {
    let mut rep = Rep { violations: vec![], cov: BTreeMap::new() };
    let dir = base.join("streams");
    let _ = std::fs::remove_dir_all(&dir);
    std::fs::create_dir_all(&dir).unwrap();
    let files = match write_case(case, &dir).await {
        Ok(f) => f,
        Err(e) => {
            rep.v("W0-writer-failed", e);
            return rep;
        }
    };
    rep.c("stream_files", files.len() as u64);
    rep.c("instances_written", case.instances.len() as u64);
    rep.c("chunks_written", case.instances.iter().map(|i| (i.chunks[0].len() + i.chunks[1].len()) as u64).sum());
    // crashed workers: cut their files
    for (w, per_mille) in &case.crashed {
        if let Some(p) = files.get(w) {
            if let Ok(md) = std::fs::metadata(p) {
                let len = md.len();
                let new_len = len * (*per_mille as u64) / 1000;
                if let Ok(f) = std::fs::OpenOptions::new().write(true).open(p) {
                    let _ = f.set_len(new_len);
                    rep.c("files_cut_short", 1);
                }
            }
        }
    }
    let cap = base.join("capture.bin");
    read_and_check(case, &dir, &cap, &mut rep, "as written");
    // independence of the file enumeration order: same files under permuted names
    let dir2 = base.join("streams2");
    let _ = std::fs::remove_dir_all(&dir2);
    std::fs::create_dir_all(&dir2).unwrap();
    let mut paths: Vec<PathBuf> = std::fs::read_dir(&dir).unwrap().filter_map(|e| e.ok()).map(|e| e.path()).collect();
    paths.sort();
    rng.shuffle(&mut paths);
    for (k, p) in paths.iter().enumerate() {
        let _ = std::fs::copy(p, dir2.join(format!("{:03}-{}.hqs", k, rng.below(1000))));
    }
    read_and_check(case, &dir2, &cap, &mut rep, "renamed/reordered files");
    rep
}

pub fn main(args: &[String]) -> i32 {
    let a = Args::parse(args);
    let prop = "C19".to_string();
    let seed = a.u64("seed", 1);
    let shard = a.u64("shard", 0);
    let max_runs = a.u64("runs", 1000);
    let secs = a.u64("secs", 30);
    let out = a.get("out").unwrap_or("/dev/stdout").to_string();
    let replay_dir = a.get("replays").unwrap_or("/verif/replays").to_string();
    let start = Instant::now();
    let deadline = start + Duration::from_secs(secs);
    let base = PathBuf::from(std::env::var("HQV_TMP").unwrap_or_else(|_| "/tmp".into())).join(format!("hqv-stream-{}", std::process::id()));
    std::fs::create_dir_all(&base).unwrap();
    let rt = tokio::runtime::Builder::new_current_thread().enable_all().build().unwrap();
    let mut rng = Rng::new(rng::hash3(seed, shard, 99));
    let mut runs = 0u64;
    let mut held = 0u64;
    let mut violated = 0u64;
    let mut cov: BTreeMap<String, u64> = BTreeMap::new();
    let mut hashes: BTreeSet<u64> = BTreeSet::new();
    let mut violations = Vec::new();
    let mut seen = BTreeSet::new();
    let mut samples = Vec::new();
    let mut regress: Vec<Case> = Vec::new();
    if shard == 0 {
        if let Some(dir) = a.get("regress") {
            let mut files: Vec<_> = std::fs::read_dir(dir).map(|d| d.filter_map(|e| e.ok()).map(|e| e.path()).collect()).unwrap_or_default();
            files.sort();
            for f in files {
                let name = f.file_name().unwrap().to_string_lossy().to_string();
                if !name.starts_with("C19") {
                    continue;
                }
                if let Ok(v) = serde_json::from_str::<serde_json::Value>(&std::fs::read_to_string(&f).unwrap_or_default()) {
                    if let Ok(c) = serde_json::from_value::<Case>(v["case"].clone()) {
                        regress.push(c);
                    }
                }
            }
        }
    }
    let n_regress = regress.len();
    let only_regress = a.get("only-regress").is_some();
    let mut regress = regress.into_iter();
    let mut i = 0u64;
    while i < max_runs && Instant::now() < deadline {
        let s = rng::hash3(seed, shard, i);
        i += 1;
        let next = regress.next();
        if next.is_none() && only_regress {
            break;
        }
        let case = next.unwrap_or_else(|| gen_case(s));
        runs += 1;
        let _ = crate::panics::take();
        let local = tokio::task::LocalSet::new();
        let r = std::panic::catch_unwind(std::panic::AssertUnwindSafe(|| local.block_on(&rt, run_case(&case, &base, &mut rng))));
        drop(local);
        let rep = match r {
            Ok(rep) => rep,
            Err(_) => {
                let p = crate::panics::take();
                let sig = p.first().map(crate::panics::signature).unwrap_or_else(|| "unknown".into());
                let mut rep = Rep { violations: vec![], cov: BTreeMap::new() };
                rep.v(&format!("P-panic:{sig}"), format!("panic in the stream writer/reader: {sig}"));
                rep
            }
        };
        for (k, n) in &rep.cov {
            *cov.entry(k.clone()).or_insert(0) += n;
        }
        if rep.violations.is_empty() {
            held += 1;
        } else {
            violated += 1;
            for (rule, detail) in &rep.violations {
                if seen.insert(rule.clone()) {
                    let path = save_replay_value(&replay_dir, &prop, rule, s, &serde_json::to_value(&case).unwrap());
                    violations.push(json!({"signature": rule, "detail": detail, "seed": s, "source": "generated", "replay": path}));
                }
            }
        }
        if rep.cov.get("channels_compared").copied().unwrap_or(0) > 0 {
            hashes.insert(rng::mix(s ^ 0x19));
            if samples.len() < 2 {
                samples.push(json!({"seed": s, "instances": case.instances.iter().take(6).map(|i| json!({"task": i.task, "instance": i.instance, "worker": i.worker, "stdout_chunks": i.chunks[0].iter().take(8).collect::<Vec<_>>(), "stderr_chunks": i.chunks[1].iter().take(8).collect::<Vec<_>>(), "ended": i.ended})).collect::<Vec<_>>(), "crashed_workers": case.crashed, "observed": rep.cov}));
            }
        }
    }
    let _ = std::fs::remove_dir_all(&base);
    let summary = json!({
        "prop": prop, "shard": shard, "seed": seed, "runs": runs, "steps": cov.get("chunks_written").copied().unwrap_or(0),
        "verdicts": {"held": held, "violated": violated},
        "inconclusive": {},
        "nontrivial": hashes.len(),
        "hashes": hashes.iter().collect::<Vec<_>>(),
        "coverage": cov,
        "violations": violations,
        "samples": samples,
        "regress_replayed": n_regress,
        "rule": "random stream directories: 1-2 jobs x 1-8 tasks x 1-3 instances written by 1-6 real streamers (one per simulated worker) with random chunkings (empty output, 1-byte, 16 KiB and 16 KiB-1 chunks, >128 chunks per channel), random interleaving of the send operations of different tasks, end markers + flush as the real launcher issues them, stream files of crashed workers (holding only superseded instances) cut at random offsets; read back through OutputLog::open + cat/export/summary with fd 1 redirected, twice (second time with renamed, reordered files); non-trivial = at least one channel compared byte for byte",
        "minima": {"channels_compared": 2000, "tasks_with_superseded_instances": 100, "files_cut_short": 50, "empty_channels": 50, "exports": 200},
        "assumptions": [
            "chunks are produced by calling StreamSender::send_data directly with the chunk sizes the launcher would produce; the process-spawning launcher itself (resend_stdio reading from pipes) is not part of this check",
            "instances of one task are written one after another (C06: one live execution per task), tasks interleave freely",
            "a crashed worker's file only holds superseded instances (the final instance ended finished/failed on a worker that flushed)"
        ],
        "wall_s": start.elapsed().as_secs_f64(),
    });
    std::fs::write(&out, serde_json::to_string(&summary).unwrap()).unwrap();
    0
}
