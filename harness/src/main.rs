mod alloc;
mod auth;
mod autoalloc;
mod stream;
mod launch;
mod queueids;
mod realserver;
mod sched;
mod journal;
mod oracle;
mod panics;
mod rng;
mod shard;
mod sim;

use sim::r#gen::Profile;
use sim::run::{Outcome, RunResult, Source, run};
use sim::types::Action;

pub fn run_in_runtime(source: Source, drain: bool) -> RunResult {
    let rt = tokio::runtime::Builder::new_current_thread()
        .enable_time()
        .start_paused(true)
        .build()
        .unwrap();
    let local = tokio::task::LocalSet::new();
    let r = local.block_on(&rt, run(source, drain));
    drop(local);
    drop(rt);
    r
}

/// Signature of what went wrong in a run (first panic or first violation), if anything.
pub fn failure_signature(r: &RunResult) -> Option<String> {
    if let Some(p) = r.panics.first() {
        return Some(format!("panic:{}", panics::signature(p)));
    }
    r.violations
        .first()
        .map(|v| format!("viol:{}:{}", v.prop, v.rule))
}

/// Greedy delta debugging: removes chunks of actions while the failure signature stays.
pub fn minimize(actions: Vec<Action>, profile: &Profile, sig: &str) -> Vec<Action> {
    let mut cur = actions;
    let mut chunk = (cur.len() / 2).max(1);
    let still_fails = |a: &Vec<Action>| {
        let r = run_in_runtime(
            Source::Replay {
                actions: a.clone(),
                profile: profile.clone(),
            },
            !sig.starts_with("panic:"),
        );
        failure_signature(&r).as_deref() == Some(sig)
    };
    loop {
        let mut i = 0;
        let mut removed_any = false;
        while i < cur.len() {
            let end = (i + chunk).min(cur.len());
            let mut cand = cur.clone();
            cand.drain(i..end);
            if still_fails(&cand) {
                cur = cand;
                removed_any = true;
            } else {
                i = end;
            }
        }
        if chunk == 1 && !removed_any {
            break;
        }
        if !removed_any || chunk > 1 {
            chunk = (chunk / 2).max(1);
        }
    }
    cur
}

fn main() {
    panics::install();
    let args: Vec<String> = std::env::args().collect();
    let cmd = args.get(1).cloned().unwrap_or_default();
    match cmd.as_str() {
        "smoke" => {
            let prop = args.get(2).cloned().unwrap_or("C09".into());
            let seed: u64 = args.get(3).and_then(|s| s.parse().ok()).unwrap_or(1);
            let n: u64 = args.get(4).and_then(|s| s.parse().ok()).unwrap_or(10);
            let start = std::time::Instant::now();
            let mut outcomes = std::collections::BTreeMap::new();
            let mut sigs = std::collections::BTreeMap::new();
            let mut cov = std::collections::BTreeMap::new();
            for i in 0..n {
                let s = rng::hash3(seed, 0, i);
                let r = run_in_runtime(
                    Source::Generate {
                        seed: s,
                        profile: Profile::for_property(&prop),
                    },
                    true,
                );
                *outcomes
                    .entry(format!("{:?}", r.outcome).chars().take(60).collect::<String>())
                    .or_insert(0u64) += 1;
                if let Some(sig) = failure_signature(&r) {
                    let e = sigs.entry(sig).or_insert((0u64, s, r.actions.len()));
                    e.0 += 1;
                    if r.actions.len() < e.2 {
                        e.1 = s;
                        e.2 = r.actions.len();
                    }
                }
                for (k, v) in &r.monitors.coverage {
                    *cov.entry(k.clone()).or_insert(0u64) += v;
                }
                if matches!(r.outcome, Outcome::HarnessError(_)) {
                    eprintln!("harness error seed {s}: {:?}", r.outcome);
                }
            }
            println!("runs {n} in {:?}", start.elapsed());
            println!("{outcomes:#?}");
            println!("{sigs:#?}");
            println!("{cov:#?}");
        }
        "trace" => {
            // trace <prop> <run seed> [min]
            let prop = args.get(2).cloned().unwrap_or("C09".into());
            let seed: u64 = args.get(3).and_then(|s| s.parse().ok()).unwrap_or(1);
            let profile = Profile::for_property(&prop);
            let r = run_in_runtime(
                Source::Generate {
                    seed,
                    profile: profile.clone(),
                },
                true,
            );
            println!("outcome {:?}", r.outcome);
            let Some(sig) = failure_signature(&r) else {
                println!("no failure");
                return;
            };
            println!("signature {sig}");
            let actions = if args.get(4).map(|s| s == "min").unwrap_or(false) {
                minimize(r.actions.clone(), &profile, &sig)
            } else {
                r.actions.clone()
            };
            let r2 = run_in_runtime(
                Source::Replay {
                    actions: actions.clone(),
                    profile,
                },
                false,
            );
            println!("replayed: {:?} {:?}", r2.outcome, failure_signature(&r2));
            for (step, o) in &r2.log {
                println!("{step:4} {}", serde_json::to_string(o).unwrap());
            }
            for p in &r2.panics {
                println!("PANIC {p:?}");
            }
            for v in &r2.violations {
                println!("VIOLATION {v:?}");
            }
        }
        "triage" => {
            // triage <prop> <seed> <n> <outdir>: minimized witness per failure signature
            let prop = args.get(2).cloned().unwrap_or("C09".into());
            let seed: u64 = args.get(3).and_then(|s| s.parse().ok()).unwrap_or(1);
            let n: u64 = args.get(4).and_then(|s| s.parse().ok()).unwrap_or(10);
            let outdir = args.get(5).cloned().unwrap_or("/tmp/hqv-triage".into());
            std::fs::create_dir_all(&outdir).unwrap();
            let profile = Profile::for_property(&prop);
            let mut best: std::collections::BTreeMap<String, (u64, Vec<Action>)> = Default::default();
            for i in 0..n {
                let s = rng::hash3(seed, 0, i);
                let r = run_in_runtime(
                    Source::Generate {
                        seed: s,
                        profile: profile.clone(),
                    },
                    true,
                );
                if let Some(sig) = failure_signature(&r) {
                    let e = best.entry(sig).or_insert((0, r.actions.clone()));
                    e.0 += 1;
                    if r.actions.len() < e.1.len() {
                        e.1 = r.actions.clone();
                    }
                }
            }
            for (k, (sig, (count, actions))) in best.iter().enumerate() {
                let min = minimize(actions.clone(), &profile, sig);
                let r2 = run_in_runtime(
                    Source::Replay {
                        actions: min.clone(),
                        profile: profile.clone(),
                    },
                    true,
                );
                let mut out = String::new();
                out.push_str(&format!("signature: {sig}\ncount: {count}\nactions: {}\n", min.len()));
                for (step, o) in &r2.log {
                    out.push_str(&format!("{step:4} {}\n", serde_json::to_string(o).unwrap()));
                }
                for p in &r2.panics {
                    out.push_str(&format!("PANIC {p:?}\n"));
                }
                for v in &r2.violations {
                    out.push_str(&format!("VIOLATION {v:?}\n"));
                }
                std::fs::write(format!("{outdir}/{k:02}.trace"), out).unwrap();
                std::fs::write(
                    format!("{outdir}/{k:02}.json"),
                    serde_json::to_string(&serde_json::json!({"prop": prop, "signature": sig, "actions": min})).unwrap(),
                )
                .unwrap();
                println!("{k:02} x{count} len {} {sig}", min.len());
            }
        }
        "replay" => {
            // replay <file.json>: prints the log of a saved action list
            let text = std::fs::read_to_string(&args[2]).unwrap();
            let v: serde_json::Value = serde_json::from_str(&text).unwrap();
            let prop = v["prop"].as_str().unwrap_or("C09").to_string();
            let actions: Vec<Action> = serde_json::from_value(v["actions"].clone()).unwrap();
            let r2 = run_in_runtime(
                Source::Replay {
                    actions,
                    profile: Profile::for_property(&prop),
                },
                true,
            );
            println!("replayed: {:?} {:?}", r2.outcome, failure_signature(&r2));
            if args.get(3).map(|s| s == "-v").unwrap_or(false) {
                for (step, o) in &r2.log {
                    println!("{step:4} {}", serde_json::to_string(o).unwrap());
                }
            }
            for p in &r2.panics {
                println!("PANIC {p:?}");
            }
            for v in &r2.violations {
                println!("VIOLATION {v:?}");
            }
        }
        "journal" => {
            let code = journal::main(&args[2..]);
            std::process::exit(code);
        }
        "sched" => {
            let code = sched::main(&args[2..]);
            std::process::exit(code);
        }
        "realserver" => {
            let code = realserver::main(&args[2..]);
            std::process::exit(code);
        }
        "queueids" => {
            let code = queueids::main(&args[2..]);
            std::process::exit(code);
        }
        "launch" => {
            let code = launch::main(&args[2..]);
            std::process::exit(code);
        }
        "stream" => {
            let code = stream::main(&args[2..]);
            std::process::exit(code);
        }
        "autoalloc" => {
            let code = autoalloc::main(&args[2..]);
            std::process::exit(code);
        }
        "auth" => {
            let code = auth::main(&args[2..]);
            std::process::exit(code);
        }
        "alloc" => {
            let code = alloc::main(&args[2..]);
            std::process::exit(code);
        }
        "shard" => {
            let code = shard::main(&args[2..]);
            std::process::exit(code);
        }
        _ => {
            eprintln!("usage: hqv smoke|trace|triage|replay|shard ...");
        }
    }
}
