//! E2 — scheduling-round lab (C15): one real scheduling decision (batches -> MILP -> mapping) on a
//! small generated cluster, judged from the core snapshots before/after the round.

use std::collections::{BTreeMap, BTreeSet};
use std::time::{Duration, Instant};

use serde_json::json;
use tako::verif::{CoreSnapshot, TaskStateSnapshot, WorkerAssignmentSnapshot};

use crate::rng::{self, Rng};
use crate::shard::{Args, save_replay_value};
use crate::sim::core::{Sim, SimConfig};
use crate::sim::run::apply;
use crate::sim::types::*;

const UNIT: u64 = 10_000;

/// Resource names used by the lab; "cpus" is mandatory on every worker.
const NAMES: [&str; 3] = ["cpus", "gpus", "mem"];

#[derive(Clone, Debug, PartialEq, Eq, serde::Serialize, serde::Deserialize)]
pub struct Inst {
    /// per worker: units of (cpus, gpus, mem); 0 = resource absent
    pub workers: Vec<[u32; 3]>,
    /// request classes: units of (cpus, gpus, mem); cpus >= 1
    pub classes: Vec<[u32; 3]>,
    /// tasks already placed by an earlier decision (class, count): "partly busy" workers
    pub busy: Vec<(usize, u32)>,
    /// ready queue: (user priority, class, count)
    pub queue: Vec<(i32, usize, u32)>,
}

impl Inst {
    /// Canonical, human readable key (the identity of a known finding).
    pub fn key(&self) -> String {
        let r = |a: &[u32; 3]| format!("{}.{}.{}", a[0], a[1], a[2]);
        format!(
            "W[{}] C[{}] B[{}] Q[{}]",
            self.workers.iter().map(r).collect::<Vec<_>>().join(" "),
            self.classes.iter().map(r).collect::<Vec<_>>().join(" "),
            self.busy.iter().map(|(c, n)| format!("c{c}x{n}")).collect::<Vec<_>>().join(" "),
            self.queue.iter().map(|(p, c, n)| format!("p{p}c{c}x{n}")).collect::<Vec<_>>().join(" "),
        )
    }
    pub fn n_classes_used(&self) -> usize {
        self.queue.iter().map(|q| q.1).collect::<BTreeSet<_>>().len()
    }
    /// Shapes in which the unchanged tree showed no inversion over the calibration samples
    /// (several 100k decisions): a single request class. With two or more classes the MILP
    /// encoding is approximate (see DESIGN.md, known findings of C15).
    pub fn is_clean_shape(&self) -> bool {
        self.n_classes_used() <= 1
    }
}

fn worker_spec(w: &[u32; 3]) -> WorkerSpec {
    let mut resources = vec![ResSpec { name: "cpus".into(), kind: ResKind::Range(w[0]) }];
    if w[1] > 0 {
        resources.push(ResSpec { name: "gpus".into(), kind: ResKind::List(w[1]) });
    }
    if w[2] > 0 {
        resources.push(ResSpec { name: "mem".into(), kind: ResKind::Sum(w[2] as u64 * UNIT) });
    }
    WorkerSpec { resources, group: "g".into(), time_limit_s: None }
}

fn req_spec(c: &[u32; 3]) -> ReqSpec {
    let mut entries = Vec::new();
    for (k, name) in NAMES.iter().enumerate() {
        if c[k] > 0 {
            entries.push(EntrySpec { resource: name.to_string(), policy: Policy::Compact, amount: c[k] as u64 * UNIT });
        }
    }
    ReqSpec { variants: vec![VariantSpec { n_nodes: 0, min_time_s: 0, entries }] }
}

fn attrs(prio: i32) -> TaskAttrs {
    TaskAttrs { prio, time_limit_s: None, crash: CrashSpec::Max(5) }
}

pub fn gen_inst(rng: &mut Rng, style: u64) -> Inst {
    // style 0: cpu only (as the calibration spike); 1: two resources; 2: clean shapes only
    let n_workers = rng.range(1, 3) as usize;
    let multi = style == 1;
    let workers: Vec<[u32; 3]> = (0..n_workers)
        .map(|_| {
            let cpus = *rng.pick(&[2u32, 3, 4, 4, 6, 7, 8, 8, 12]);
            let gpus = if multi && rng.chance(60, 100) { rng.range(1, 3) as u32 } else { 0 };
            let mem = if multi && rng.chance(30, 100) { rng.range(2, 8) as u32 } else { 0 };
            [cpus, gpus, mem]
        })
        .collect();
    let n_classes = if style == 2 {
        1
    } else if rng.chance(10, 100) {
        1
    } else {
        rng.range(2, 4) as usize
    };
    let mut classes: Vec<[u32; 3]> = Vec::new();
    while classes.len() < n_classes {
        let c = [
            rng.range(1, 5) as u32,
            if multi && rng.chance(40, 100) { rng.range(1, 2) as u32 } else { 0 },
            if multi && rng.chance(20, 100) { rng.range(1, 4) as u32 } else { 0 },
        ];
        if !classes.contains(&c) {
            classes.push(c);
        }
    }
    let mut busy = Vec::new();
    if rng.chance(40, 100) {
        for _ in 0..rng.range(1, 2) {
            busy.push((rng.usize_below(classes.len()), rng.range(1, 3) as u32));
        }
    }
    let n_levels = rng.range(1, 8) as i32;
    let mut queue: Vec<(i32, usize, u32)> = Vec::new();
    // contention: total cpu demand between 0.5x and 3x of the cluster's cpus
    let capacity: u32 = workers.iter().map(|w| w[0]).sum();
    let target = capacity * rng.range(5, 30) as u32 / 10;
    let mut demand = 0u32;
    let mut guard = 0;
    // in half of the instances big requests tend to have high priority (then small low-priority
    // tasks are what fits beside them: the situation the property is about)
    let correlated = rng.chance(50, 100);
    let mut by_size: Vec<usize> = (0..classes.len()).collect();
    by_size.sort_by_key(|c| classes[*c][0] + classes[*c][1] * 2);
    while demand < target && guard < 40 {
        guard += 1;
        let c = rng.usize_below(classes.len());
        let p = if correlated && rng.chance(80, 100) {
            let rank = by_size.iter().position(|x| *x == c).unwrap() as i32;
            (rank * n_levels / classes.len() as i32 + rng.below(2) as i32).min(n_levels - 1)
        } else {
            rng.below(n_levels as u64) as i32
        };
        let n = match rng.below(6) {
            0 => rng.range(3, 9) as u32,
            _ => rng.range(1, 2) as u32,
        };
        demand += n * classes[c][0];
        if let Some(e) = queue.iter_mut().find(|e| e.0 == p && e.1 == c) {
            e.2 += n;
        } else {
            queue.push((p, c, n));
        }
    }
    queue.sort_by(|a, b| b.0.cmp(&a.0).then(a.1.cmp(&b.1)));
    // drop unused classes from the numbering to keep keys canonical
    let used: Vec<usize> = (0..classes.len()).filter(|c| queue.iter().any(|q| q.1 == *c) || busy.iter().any(|b| b.0 == *c)).collect();
    let remap: BTreeMap<usize, usize> = used.iter().enumerate().map(|(new, old)| (*old, new)).collect();
    let classes = used.iter().map(|c| classes[*c]).collect();
    for q in queue.iter_mut() {
        q.1 = remap[&q.1];
    }
    for b in busy.iter_mut() {
        b.0 = remap[&b.0];
    }
    Inst { workers, classes, busy, queue }
}

#[derive(Debug, Default)]
pub struct Judged {
    pub optimal: bool,
    pub dispatched: usize,
    pub waiting: usize,
    pub inversion: Option<String>,
    pub exception_used: bool,
    pub pairs_checked: u64,
    pub busy_placed: usize,
    /// "plain" or "same-worker-reservation" (the worker is kept for a still higher waiting task)
    pub kind: &'static str,
}

fn fits(need: &[u64; 3], free: &[u64; 3]) -> bool {
    (0..3).all(|k| need[k] <= free[k])
}

/// "Reservation" family: one or two partly busy workers, three or four cpu-only classes of
/// sizes up to 8 whose priority grows with their size, so that the top class usually does not
/// fit beside what is running, the worker is kept for it, and only the leftover ("gap") beside
/// the reserved amount may go to smaller tasks.
pub fn gen_reservation_inst(rng: &mut Rng) -> Inst {
    let n_workers = if rng.chance(70, 100) { 1 } else { 2 };
    let workers: Vec<[u32; 3]> = (0..n_workers).map(|_| [*rng.pick(&[5u32, 6, 7, 8, 9, 10, 10, 12, 16]), 0, 0]).collect();
    let n_classes = rng.range(3, 4) as usize;
    let mut sizes: Vec<u32> = Vec::new();
    while sizes.len() < n_classes {
        let c = rng.range(1, 8) as u32;
        if !sizes.contains(&c) {
            sizes.push(c);
        }
    }
    sizes.sort_unstable_by(|a, b| b.cmp(a));
    let classes: Vec<[u32; 3]> = sizes.iter().map(|c| [*c, 0, 0]).collect();
    let mut busy = Vec::new();
    if rng.chance(85, 100) {
        for _ in 0..rng.range(1, 2) {
            // mostly a class below the top one
            let c = if rng.chance(80, 100) { rng.range(1, n_classes as u64 - 1) as usize } else { 0 };
            busy.push((c, rng.range(1, 2) as u32));
        }
    }
    let mut queue: Vec<(i32, usize, u32)> = Vec::new();
    for (c, _) in classes.iter().enumerate() {
        if c > 0 && rng.chance(15, 100) {
            continue;
        }
        // class 0 is the biggest: highest priority, unless this instance shuffles priorities
        let p = if rng.chance(85, 100) { 2 * (n_classes - c) as i32 + rng.below(2) as i32 } else { rng.below(8) as i32 };
        let n = if rng.chance(25, 100) { rng.range(2, 5) as u32 } else { 1 };
        queue.push((p, c, n));
    }
    queue.sort_by(|a, b| b.0.cmp(&a.0).then(a.1.cmp(&b.1)));
    let used: Vec<usize> = (0..classes.len()).filter(|c| queue.iter().any(|q| q.1 == *c) || busy.iter().any(|b| b.0 == *c)).collect();
    let remap: BTreeMap<usize, usize> = used.iter().enumerate().map(|(new, old)| (*old, new)).collect();
    let classes = used.iter().map(|c| classes[*c]).collect();
    for q in queue.iter_mut() {
        q.1 = remap[&q.1];
    }
    for b in busy.iter_mut() {
        b.0 = remap[&b.0];
    }
    Inst { workers, classes, busy, queue }
}

/// Runs one instance through the real scheduler and judges the decision.
pub async fn run_inst(inst: &Inst, tmp: &std::path::Path) -> Result<Judged, String> {
    let mut sim = Sim::new(SimConfig { prefill_reserve: 16, prefill_max: 40, journal_dir: tmp.to_path_buf(), real_launcher: None });
    for w in &inst.workers {
        apply(&mut sim, &Action::Connect(worker_spec(w))).await;
    }
    let reqs: Vec<ReqSpec> = inst.classes.iter().map(req_spec).collect();
    let mut judged = Judged::default();
    // earlier decision: the "busy" tasks (highest priority, own job)
    if !inst.busy.is_empty() {
        let mut tasks = Vec::new();
        for (c, n) in &inst.busy {
            for _ in 0..*n {
                tasks.push(GraphTask { id: tasks.len() as u32, deps: vec![], req: *c, attrs: attrs(1000) });
            }
        }
        apply(&mut sim, &Action::Req { client: 0, req: ClientReq::Submit { job: None, max_fails: None, spec: SubmitSpec::Graph { reqs: reqs.clone(), tasks }, stream: false } }).await;
        // the submit is answered only after its journal flush; until then the client loop does
        // not read the next request
        while !sim.pending_flushes.is_empty() {
            apply(&mut sim, &Action::AnswerFlush).await;
        }
        let now = sim.now();
        let r = sim.inc.server.run_scheduling(now);
        if r != 0 {
            return Ok(judged);
        }
    }
    // the ready queue of the judged decision
    let mut tasks = Vec::new();
    let mut meta: BTreeMap<u32, (i32, usize)> = BTreeMap::new();
    for (p, c, n) in &inst.queue {
        for _ in 0..*n {
            let id = tasks.len() as u32;
            meta.insert(id, (*p, *c));
            tasks.push(GraphTask { id, deps: vec![], req: *c, attrs: attrs(*p) });
        }
    }
    apply(&mut sim, &Action::Req { client: 0, req: ClientReq::Submit { job: None, max_fails: None, spec: SubmitSpec::Graph { reqs, tasks }, stream: false } }).await;
    if crate::panics::any() {
        return Err("panic".into());
    }
    let before: CoreSnapshot = sim.core_snapshot();
    let now = sim.now();
    let r = sim.inc.server.run_scheduling(now);
    let after: CoreSnapshot = sim.core_snapshot();
    judged.optimal = r == 0;
    if !judged.optimal {
        return Ok(judged);
    }
    let main_job = if inst.busy.is_empty() { 1 } else { 2 };
    // name -> index of NAMES for the server's resource ids
    let idx_of: Vec<Option<usize>> = before.resource_names.iter().map(|n| NAMES.iter().position(|x| x == n)).collect();
    let vec3 = |v: &Vec<u64>| -> [u64; 3] {
        let mut out = [0u64; 3];
        for (rid, a) in v.iter().enumerate() {
            if let Some(Some(k)) = idx_of.get(rid) {
                out[*k] = *a;
            }
        }
        out
    };
    let need_of = |c: usize| -> [u64; 3] { [inst.classes[c][0] as u64 * UNIT, inst.classes[c][1] as u64 * UNIT, inst.classes[c][2] as u64 * UNIT] };
    let mut free_before: BTreeMap<u32, [u64; 3]> = BTreeMap::new();
    let mut total: BTreeMap<u32, [u64; 3]> = BTreeMap::new();
    for w in &before.workers {
        total.insert(w.id.as_num(), vec3(&w.resources));
        if let WorkerAssignmentSnapshot::Sn { free, assigned, .. } = &w.assignment {
            free_before.insert(w.id.as_num(), vec3(free));
            judged.busy_placed += assigned.len();
        }
    }
    // dispatched in this round: ready before, assigned after
    let was_ready: BTreeSet<_> = before.tasks.iter().filter(|t| matches!(t.state, TaskStateSnapshot::Waiting { unfinished_deps: 0 })).map(|t| t.id).collect();
    let mut dispatched: Vec<(u32, i32, usize, u32)> = Vec::new(); // (task, prio, class, worker)
    let mut waiting: Vec<(u32, i32, usize)> = Vec::new();
    for t in &after.tasks {
        if !was_ready.contains(&t.id) || t.id.job_id().as_num() != main_job {
            continue;
        }
        let id = t.id.job_task_id().as_num();
        let Some((p, c)) = meta.get(&id).copied() else { continue };
        match &t.state {
            TaskStateSnapshot::Assigned { worker_id, .. } | TaskStateSnapshot::Running { worker_id, .. } => dispatched.push((id, p, c, worker_id.as_num())),
            TaskStateSnapshot::Waiting { .. } => waiting.push((id, p, c)),
            // a prefilled task sits in a worker's backlog: it holds no resources and is not "dispatched to run"
            TaskStateSnapshot::Prefilled { .. } => {}
            _ => {}
        }
    }
    judged.dispatched = dispatched.len();
    judged.waiting = waiting.len();
    if std::env::var("HQV_SCHED_DEBUG").is_ok() {
        eprintln!("instance {}", inst.key());
        for t in &after.tasks {
            eprintln!("  task {:?} prio {:?} rq {} {:?} (ready before: {})", crate::sim::conv::tid(t.id), t.priority, t.resource_rq_id, t.state, was_ready.contains(&t.id));
        }
        for w in &before.workers {
            eprintln!("  worker {} before: {:?}", w.id, w.assignment);
        }
    }
    // one representative per (prio, class) of the waiting tasks
    let mut reps: BTreeMap<(i32, usize), u32> = BTreeMap::new();
    for (id, p, c) in &waiting {
        reps.entry((*p, *c)).or_insert(*id);
    }
    for ((hp, hc), hid) in &reps {
        let need = need_of(*hc);
        // free for h on a worker: what was free before the decision minus what the decision gave to
        // tasks of priority >= prio(h) there
        let free_for_h = |w: u32| -> [u64; 3] {
            let mut f = free_before.get(&w).copied().unwrap_or([0; 3]);
            for (_, p, c, dw) in &dispatched {
                if *dw == w && *p >= *hp {
                    let n = need_of(*c);
                    for k in 0..3 {
                        f[k] = f[k].saturating_sub(n[k]);
                    }
                }
            }
            f
        };
        for (lid, lp, lc, w) in &dispatched {
            if *lp >= *hp {
                continue;
            }
            judged.pairs_checked += 1;
            if !fits(&need, &free_for_h(*w)) {
                continue;
            }
            // exception: another worker could run h by its total resources but is too busy now
            let other_busy = total.iter().any(|(ow, tot)| *ow != *w && fits(&need, tot) && !fits(&need, &free_for_h(*ow)));
            if other_busy {
                judged.exception_used = true;
                continue;
            }
            // is the worker being kept for a still higher-priority waiting task that does not fit yet?
            let reserved_for_higher = waiting.iter().any(|(_, gp, gc)| {
                *gp > *hp && fits(&need_of(*gc), total.get(w).unwrap_or(&[0; 3])) && {
                    let mut f = free_before.get(w).copied().unwrap_or([0; 3]);
                    for (_, p, c, dw) in &dispatched {
                        if *dw == *w && *p >= *gp {
                            let n = need_of(*c);
                            for k in 0..3 {
                                f[k] = f[k].saturating_sub(n[k]);
                            }
                        }
                    }
                    !fits(&need_of(*gc), &f)
                }
            });
            if judged.inversion.is_none() || (!reserved_for_higher && judged.kind == "same-worker-reservation") {
                judged.kind = if reserved_for_higher { "same-worker-reservation" } else { "plain" };
                judged.inversion = Some(format!(
                    "task {lid} (priority {lp}, class {lc} = {:?}) was dispatched to worker {w} while task {hid} (priority {hp}, class {hc} = {:?}) stays ready; worker {w} had {:?} free before the decision and {:?} left for priority >= {hp}; dispatched (task,prio,class,worker) = {:?}",
                    inst.classes[*lc], inst.classes[*hc], free_before.get(w), free_for_h(*w), dispatched
                ));
            }
        }
    }
    Ok(judged)
}

/// The fixed, seed-independent corpus.
pub fn corpus(n: u64) -> Vec<Inst> {
    let mut out = Vec::new();
    let mut seen = BTreeSet::new();
    let mut rng = Rng::new(0xC15_C0FFEE);
    while (out.len() as u64) < n {
        let style = rng.below(2);
        let inst = gen_inst(&mut rng, style);
        if seen.insert(inst.key()) {
            out.push(inst);
        }
    }
    // second part (added later, so the first `n` members and their keys stay what they were):
    // the reservation family
    let mut rng = Rng::new(0xC15_0003);
    let mut guard = 0u64;
    while (out.len() as u64) < n + n / 2 && guard < 40 * n {
        guard += 1;
        let inst = gen_reservation_inst(&mut rng);
        if seen.insert(inst.key()) {
            out.push(inst);
        }
    }
    out
}

pub fn main(args: &[String]) -> i32 {
    let a = Args::parse(args);
    let prop = "C15".to_string();
    let seed = a.u64("seed", 1);
    let shard = a.u64("shard", 0);
    let nshards = a.u64("nshards", 1).max(1);
    let max_runs = a.u64("runs", 1000);
    let secs = a.u64("secs", 30);
    let tier = a.get("tier").unwrap_or("quick").to_string();
    let out = a.get("out").unwrap_or("/dev/stdout").to_string();
    let replay_dir = a.get("replays").unwrap_or("/verif/replays").to_string();
    let calibrate = a.get("calibrate").is_some();
    let start = Instant::now();
    let deadline = start + Duration::from_secs(secs);
    let tmp = std::path::PathBuf::from(std::env::var("HQV_TMP").unwrap_or_else(|_| "/tmp".into())).join(format!("hqv-sched-{}", std::process::id()));
    std::fs::create_dir_all(&tmp).unwrap();
    let _ = &tier;
    let corpus_size = 20_000;
    let corpus_all = corpus(corpus_size);
    let mine: Vec<Inst> = corpus_all.into_iter().enumerate().filter(|(i, _)| (*i as u64) % nshards == shard).map(|(_, x)| x).collect();
    let n_corpus = mine.len();
    let mut corpus_iter = mine.into_iter();
    let mut rng = Rng::new(rng::hash3(seed, shard, 15));
    let mut runs = 0u64;
    let mut held = 0u64;
    let mut violated = 0u64;
    let mut inconclusive: BTreeMap<String, u64> = BTreeMap::new();
    let mut cov: BTreeMap<String, u64> = BTreeMap::new();
    let mut hashes: BTreeSet<u64> = BTreeSet::new();
    let mut violations = Vec::new();
    let mut seen = BTreeSet::new();
    let mut samples = Vec::new();
    let mut shape_stats: BTreeMap<String, (u64, u64)> = BTreeMap::new();
    let mut corpus_done = 0usize;
    let mut c = |cov: &mut BTreeMap<String, u64>, k: &str, n: u64| *cov.entry(k.to_string()).or_insert(0) += n;
    // regress witnesses (shard 0)
    let mut regress: Vec<Inst> = Vec::new();
    if shard == 0 {
        if let Some(dir) = a.get("regress") {
            let mut files: Vec<_> = std::fs::read_dir(dir).map(|d| d.filter_map(|e| e.ok()).map(|e| e.path()).collect()).unwrap_or_default();
            files.sort();
            for f in files {
                if !f.file_name().unwrap().to_string_lossy().starts_with("C15") {
                    continue;
                }
                if let Ok(v) = serde_json::from_str::<serde_json::Value>(&std::fs::read_to_string(&f).unwrap_or_default()) {
                    if let Ok(i) = serde_json::from_value::<Inst>(v["case"].clone()) {
                        regress.push(i);
                    }
                }
            }
        }
    }
    let n_regress = regress.len();
    let only_regress = a.get("only-regress").is_some();
    if only_regress {
        corpus_iter = Vec::new().into_iter();
    }
    let mut regress = regress.into_iter();
    loop {
        // the corpus is always completed (it is the verdict-bearing, seed-independent part);
        // random instances fill the remaining time
        let (inst, source) = if let Some(i) = regress.next() {
            (i, "regress")
        } else if let Some(i) = corpus_iter.next() {
            corpus_done += 1;
            (i, "corpus")
        } else {
            if only_regress || runs >= max_runs || Instant::now() >= deadline {
                break;
            }
            let style = rng.below(3);
            (gen_inst(&mut rng, style), "random")
        };
        runs += 1;
        let _ = crate::panics::take();
        let rt = tokio::runtime::Builder::new_current_thread().enable_time().start_paused(true).build().unwrap();
        let local = tokio::task::LocalSet::new();
        let r = std::panic::catch_unwind(std::panic::AssertUnwindSafe(|| local.block_on(&rt, run_inst(&inst, &tmp))));
        drop(local);
        drop(rt);
        let panicked = crate::panics::take();
        let j = match r {
            Ok(Ok(j)) if panicked.is_empty() => j,
            _ => {
                *inconclusive.entry("panic-or-harness-error (judged by C09)".into()).or_insert(0) += 1;
                continue;
            }
        };
        if !j.optimal {
            *inconclusive.entry("solve-not-optimal".into()).or_insert(0) += 1;
            continue;
        }
        let clean = inst.is_clean_shape();
        let shape = format!("{}w{}c{}", inst.workers.len(), inst.n_classes_used(), if inst.busy.is_empty() { "" } else { "b" });
        let e = shape_stats.entry(shape.clone()).or_insert((0, 0));
        e.0 += 1;
        c(&mut cov, "decisions_judged", 1);
        c(&mut cov, &format!("decisions.{source}"), 1);
        c(&mut cov, "pairs_checked", j.pairs_checked);
        c(&mut cov, "tasks_dispatched", j.dispatched as u64);
        c(&mut cov, "tasks_left_waiting", j.waiting as u64);
        if j.exception_used {
            c(&mut cov, "exception_other_worker_busy", 1);
        }
        if j.busy_placed > 0 {
            c(&mut cov, "decisions_on_partly_busy_cluster", 1);
            if j.dispatched + j.waiting > 0 {
                c(&mut cov, "decisions_on_partly_busy_cluster_with_ready_tasks_judged", 1);
            }
            if j.pairs_checked > 0 {
                c(&mut cov, "decisions_on_partly_busy_cluster_with_pairs_checked", 1);
            }
        }
        if j.pairs_checked > 0 {
            hashes.insert(rng::mix(inst.key().bytes().fold(0u64, |h, b| h.wrapping_mul(1099511628211) ^ b as u64)));
        }
        match &j.inversion {
            None => held += 1,
            Some(detail) => {
                e.1 += 1;
                c(&mut cov, &format!("inversions_seen.{}", j.kind), 1);
                let verdict_bearing = source != "random" || clean || only_regress;
                if calibrate || verdict_bearing {
                    violated += 1;
                    // corpus / regress members are identified by their instance key; a random
                    // instance of a clean shape by the shape rule
                    let sig = if source == "random" { format!("V1-inversion-in-clean-shape({}):{}", j.kind, inst.key()) } else { format!("V1-inversion({}):{}", j.kind, inst.key()) };
                    if seen.insert(sig.clone()) {
                        let path = save_replay_value(&replay_dir, &prop, "V1-inversion", rng::mix(runs ^ seed), &serde_json::to_value(&inst).unwrap());
                        violations.push(json!({"signature": sig, "detail": detail, "seed": seed, "source": source, "replay": path}));
                    }
                } else {
                    c(&mut cov, "inversions_outside_verdict_bearing_shapes (counted only)", 1);
                    held += 1;
                }
            }
        }
        if samples.len() < 2 && j.pairs_checked > 0 {
            samples.push(json!({"instance": inst.key(), "dispatched": j.dispatched, "left_waiting": j.waiting, "pairs_checked": j.pairs_checked, "inversion": j.inversion}));
        }
    }
    let _ = std::fs::remove_dir_all(&tmp);
    c(&mut cov, "corpus_members_judged_or_discarded", corpus_done as u64);
    let summary = json!({
        "prop": prop, "shard": shard, "seed": seed, "runs": runs, "steps": cov.get("pairs_checked").copied().unwrap_or(0),
        "verdicts": {"held": held, "violated": violated},
        "inconclusive": inconclusive,
        "nontrivial": hashes.len(),
        "hashes": hashes.iter().collect::<Vec<_>>(),
        "coverage": cov,
        "violations": violations,
        "samples": samples,
        "regress_replayed": n_regress,
        "extra": {"corpus_size": n_corpus, "shapes (workers x classes, b = partly busy): judged/inversions": shape_stats.iter().map(|(k, v)| format!("{k}:{}/{}", v.0, v.1)).collect::<Vec<_>>().join(" ")},
        "rule": "one real scheduling decision per instance: 1-3 workers (cpus, optionally gpus/mem; idle or partly busy through an earlier decision), 1-4 single-variant single-node request classes, up to 8 priority levels, default min-utilisation; judged only if the solve completed (optimal). Part 1: a fixed seed-independent corpus of 30000 instances (20000 general ones + 10000 of the `reservation` family: 1-2 partly busy workers, 3-4 cpu classes of sizes up to 8 whose priority grows with the size), every member judged in every run, failing members identified by instance key (the members failing on the unchanged tree are listed one by one in known_findings.json). Part 2: seed-dependent random instances; only single-class instances bear a verdict, inversions in the others are counted and classified (they cannot be told apart from the recorded approximation defects). Non-trivial = at least one (dispatched lower, waiting higher) pair was examined",
        "minima": {"decisions_judged": 22000, "pairs_checked": 3000, "decisions_on_partly_busy_cluster": 1000, "decisions_on_partly_busy_cluster_with_pairs_checked": 1500, "exception_other_worker_busy": 8},
        "assumptions": [
            "the decision is read from the core snapshots before/after run_scheduling (tasks that went from ready to assigned); prefilled tasks (worker backlog) hold no resources and are not counted as dispatched",
            "'fits once the lower-priority tasks dispatched there are left out' = request <= free before the decision minus the requests the decision placed there with priority >= the waiting task's; the exception applies when another worker is large enough by its total resources but lacks free resources under the same rule",
            "random instances outside the clean shapes cannot be told apart from the recorded approximation defects of the MILP encoding and never change the verdict"
        ],
        "wall_s": start.elapsed().as_secs_f64(),
    });
    std::fs::write(&out, serde_json::to_string(&summary).unwrap()).unwrap();
    0
}
