//! Panic recording. A global hook stores every panic (message + location); the harness inspects
//! the store after every step. Panics whose location is inside the harness sources are harness
//! errors, everything else (repository code, std called from repository code) is attributed to
//! the repository.

use std::sync::Mutex;

#[derive(Debug, Clone, serde::Serialize, serde::Deserialize)]
pub struct PanicRecord {
    pub message: String,
    pub file: String,
    pub line: u32,
    pub in_harness: bool,
}

static STORE: Mutex<Vec<PanicRecord>> = Mutex::new(Vec::new());
static QUIET: std::sync::atomic::AtomicBool = std::sync::atomic::AtomicBool::new(true);

pub fn install() {
    std::panic::set_hook(Box::new(|info| {
        let message = if let Some(s) = info.payload().downcast_ref::<&str>() {
            s.to_string()
        } else if let Some(s) = info.payload().downcast_ref::<String>() {
            s.clone()
        } else {
            "<non-string panic>".to_string()
        };
        let (file, line) = info
            .location()
            .map(|l| (l.file().to_string(), l.line()))
            .unwrap_or_else(|| ("<unknown>".to_string(), 0));
        let in_harness = file.contains("/verif/harness/") || file.starts_with("src/");
        if !QUIET.load(std::sync::atomic::Ordering::Relaxed) {
            eprintln!("PANIC {file}:{line}: {message}");
        }
        if std::env::var("HQV_BT").is_ok() {
            eprintln!("PANIC {file}:{line}: {message}\n{}", std::backtrace::Backtrace::force_capture());
        }
        if let Ok(mut s) = STORE.lock() {
            s.push(PanicRecord {
                message,
                file,
                line,
                in_harness,
            });
        }
    }));
}

pub fn set_quiet(q: bool) {
    QUIET.store(q, std::sync::atomic::Ordering::Relaxed);
}

pub fn take() -> Vec<PanicRecord> {
    std::mem::take(&mut *STORE.lock().unwrap())
}

pub fn any() -> bool {
    !STORE.lock().unwrap().is_empty()
}

/// Normalizes a panic into a signature: file (relative to the repo), line and the message with
/// digits collapsed, so that the same defect at different ids maps to the same key.
pub fn signature(p: &PanicRecord) -> String {
    let file = p
        .file
        .strip_prefix("/repo/")
        .unwrap_or(&p.file)
        .to_string();
    let mut msg = String::new();
    let mut last_digit = false;
    for c in p.message.chars() {
        if c.is_ascii_digit() {
            if !last_digit {
                msg.push('#');
            }
            last_digit = true;
        } else {
            last_digit = false;
            msg.push(c);
        }
    }
    if msg.len() > 120 {
        msg.truncate(120);
    }
    format!("{file}:{}:{msg}", p.line)
}
